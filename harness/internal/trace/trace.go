// Package trace writes ndjson traces (one JSON object per line, small integers and short strings).
package trace

import (
	"bufio"
	"encoding/json"
	"os"
	"sync"
)

// W is an ndjson writer safe for concurrent use.
type W struct {
	mu sync.Mutex
	f  *os.File
	bw *bufio.Writer
	N  int
}

// M is a JSON object.
type M map[string]interface{}

// Create opens path for writing.
func Create(path string) (*W, error) {
	f, err := os.Create(path)
	if err != nil {
		return nil, err
	}
	return &W{f: f, bw: bufio.NewWriterSize(f, 1<<20)}, nil
}

// Emit writes one event.
func (w *W) Emit(m M) {
	b, err := json.Marshal(m)
	if err != nil {
		panic(err)
	}
	w.mu.Lock()
	w.bw.Write(b)
	w.bw.WriteByte('\n')
	w.N++
	w.mu.Unlock()
}

// Close flushes and closes.
func (w *W) Close() error {
	w.mu.Lock()
	defer w.mu.Unlock()
	if err := w.bw.Flush(); err != nil {
		return err
	}
	return w.f.Close()
}

// Flush writes buffered events to the file (used before a step that may crash the process).
func (w *W) Flush() {
	w.mu.Lock()
	w.bw.Flush()
	w.mu.Unlock()
}
