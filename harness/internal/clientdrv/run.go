package clientdrv

import (
	"bytes"
	"encoding/json"
	"errors"
	"fmt"
	"net/http"
	"os"
	"regexp"
	"runtime"
	"strconv"
	"strings"
	"sync"
	"sync/atomic"
	"time"

	"github.com/bluenviron/gohlslib/v2"
	"github.com/bluenviron/gohlslib/v2/pkg/codecs"

	"verif/harness/internal/trace"
)

// PLVersion is one version of a media playlist: MS = media sequence number of the first listed segment.
type PLVersion struct {
	MS   int    `json:"ms"`
	N    int    `json:"n"`
	End  bool   `json:"end"`
	Type string `json:"type"` // "" | EVENT | VOD
	Hint int    `json:"hint"` // Low-Latency: number of the hinted part (0: no preload hint)
	Wait int    `json:"wait"` // the server answers this version after this many ms (a blocking reload)
}

// StreamSpec is one media playlist (the first stream is the leading one).
type StreamSpec struct {
	Container string      `json:"container"` // ts | fmp4
	Tracks    []TrackDef  `json:"tracks"`
	TrackIDs  []int       `json:"trackIds"`
	Versions  []PLVersion `json:"versions"`
	// media: segment msn holds, for track ti, PerSeg units starting at Base[ti] + msn*PerSeg*Step[ti]
	Base   []int64 `json:"base"`
	Step   []int64 `json:"step"`
	PerSeg int     `json:"perSeg"`
	PtsOff []int32 `json:"ptsOff"` // cyclic pattern of pts offsets for video units (in track ticks)
	Frags  int     `json:"frags"`  // fMP4: split each segment into this many fragments
	// addressing
	ByteRange  bool   `json:"byteRange"` // all segments in one file, addressed by EXT-X-BYTERANGE
	NoStart    bool   `json:"noStart"`   // first byte range without @start
	Query      string `json:"query"`
	AbsURL     bool   `json:"absUrl"`
	DateTime   bool   `json:"dateTime"` // EXT-X-PROGRAM-DATE-TIME on every segment
	DTJump     int64  `json:"dtJump"`   // extra ms added to the date-time of each later segment (re-anchoring)
	Name       string `json:"name"`
	Lang       string `json:"lang"`
	Default    bool   `json:"default"`
	SegDurMs   int    `json:"segDurMs"`
	HintRanges bool   `json:"hintRanges"` // Low-Latency: parts are byte ranges of one file (the preload hint carries BYTERANGE-START / -LENGTH)
	AusPerPES  int    `json:"ausPerPES"`  // MPEG-TS: up to this many consecutive audio access units share one PES (0 / 1: one each)
	SegDelayMs int    `json:"segDelayMs"` // the server answers segment requests of this stream after this many ms
	UriStyle   string `json:"uriStyle"`   // with Scenario.Dirs: rel ("../media/x") | abspath ("/live/media/x") | absurl | sub ("m/x")
	LL         bool   `json:"ll"`         // Low-Latency: SERVER-CONTROL CAN-BLOCK-RELOAD + parts + preload hint
	CanSkip    bool   `json:"canSkip"`    // CAN-SKIP-UNTIL advertised
}

// Fault is a fault injected at a global request index.
type Fault struct {
	Req  int    `json:"req"`
	Kind string `json:"kind"` // status | transport | stall
	// targeted form (On != ""): the Nth request of kind On (pl | init | seg | part) of stream S, whatever its global index
	On  string `json:"on"`
	S   int    `json:"s"`
	Nth int    `json:"nth"`
}

// Scenario is one client run.
type Scenario struct {
	Entry       string       `json:"entry"` // media | multi
	Streams     []StreamSpec `json:"streams"`
	Faults      []Fault      `json:"faults"`
	CloseReq    int          `json:"closeReq"`  // Close when request #CloseReq starts (-1: never)
	CloseWhen   string       `json:"closeWhen"` // "" | tracks | data | eos
	CloseTwice  bool         `json:"closeTwice"`
	OnTracksErr bool         `json:"onTracksErr"`
	Dirs        bool         `json:"dirs"`      // playlists under /live/pl/, media under /live/media/ (or /live/pl/m/), index at /live/index.m3u8
	BlockData   int          `json:"blockData"` // block the first data callback this many ms (look-ahead test)
	CloseData   int          `json:"closeData"` // Close from inside the k-th data callback (0: never)
	CloseAtMs   int          `json:"closeAtMs"` // Close this many ms after Start (0: never)
	SlowData    int          `json:"slowData"`  // every data callback takes this many ms
	MaxMs       int          `json:"maxMs"`
	Tag         string       `json:"tag"`
	// content mutation for C13: name of the mutation and the request index it applies to
	Mut     string `json:"mut"`
	MutReq  int    `json:"mutReq"`  // unused (kept for old replays)
	MutS    int    `json:"mutS"`    // stream of the mutated response (-1: the multivariant playlist)
	MutKind string `json:"mutKind"` // multi | pl | init | seg | part
	MutNth  int    `json:"mutNth"`  // 0-based occurrence of (stream, kind)
}

// PPS is the number of parts per segment of Low-Latency streams; part p (1-based, global) holds unit p of every track.
const PPS = 2

var t0 = time.Date(2024, 5, 1, 10, 0, 0, 0, time.UTC)

type segFile struct {
	body []byte
	off  int
}

type streamState struct {
	dirs   bool
	spec   StreamSpec
	polls  int
	segs   map[int][]byte
	init   []byte
	ranges map[int][2]int // msn -> offset, length in the single file
	file   []byte
	// Low-Latency parts as byte ranges of one file
	pranges map[int][2]int
	pfile   []byte
	pfirst  int
}

func (st *streamState) unitsOf(msn int) map[int][]Unit {
	out := map[int][]Unit{}
	for ti := range st.spec.Tracks {
		per := st.spec.PerSeg
		if per == 0 {
			per = 1
		}
		for k := 0; k < per; k++ {
			n := int64(msn*per + k)
			u := Unit{ID: int(n) + 1, DTS: st.spec.Base[ti] + n*st.spec.Step[ti], Dur: st.spec.Step[ti], RA: k == 0}
			if st.spec.Tracks[ti].Codec == "h264" && len(st.spec.PtsOff) > 0 {
				u.Off = st.spec.PtsOff[int(n)%len(st.spec.PtsOff)]
			}
			out[ti] = append(out[ti], u)
		}
	}
	return out
}

func (st *streamState) segment(msn int) ([]byte, error) {
	if b, ok := st.segs[msn]; ok {
		return b, nil
	}
	units := st.unitsOf(msn)
	var b []byte
	var err error
	if st.spec.Container == "ts" {
		b, err = SegTSGrouped(st.spec.Tracks, units, st.spec.AusPerPES)
	} else {
		fr := st.spec.Frags
		if fr <= 1 {
			b, err = FragFMP4(msn, st.spec.Tracks, st.ids(), units)
		} else {
			// split the units of every track into `fr` consecutive fragments
			for f := 0; f < fr; f++ {
				sub := map[int][]Unit{}
				for ti, us := range units {
					a, z := f*len(us)/fr, (f+1)*len(us)/fr
					sub[ti] = us[a:z]
				}
				var x []byte
				x, err = FragFMP4(msn*fr+f, st.spec.Tracks, st.ids(), sub)
				if err != nil {
					break
				}
				b = append(b, x...)
			}
		}
	}
	if err != nil {
		return nil, err
	}
	st.segs[msn] = b
	return b, nil
}

func (st *streamState) part(p int) ([]byte, error) {
	units := map[int][]Unit{}
	for ti := range st.spec.Tracks {
		n := int64(p - 1)
		units[ti] = []Unit{{ID: p, DTS: st.spec.Base[ti] + n*st.spec.Step[ti], Dur: st.spec.Step[ti], RA: true}}
	}
	return FragFMP4(p, st.spec.Tracks, st.ids(), units)
}

// ensurePartRange lays the parts out in one file, from the first hinted part on
func (st *streamState) ensurePartRange(p int) error {
	if st.pranges == nil {
		st.pranges = map[int][2]int{}
		st.pfirst = p
	}
	for q := st.pfirst; q <= p; q++ {
		if _, ok := st.pranges[q]; ok {
			continue
		}
		b, err := st.part(q)
		if err != nil {
			return err
		}
		st.pranges[q] = [2]int{len(st.pfile), len(b)}
		st.pfile = append(st.pfile, b...)
	}
	return nil
}

func (st *streamState) ids() []int {
	if len(st.spec.TrackIDs) == len(st.spec.Tracks) {
		return st.spec.TrackIDs
	}
	ids := make([]int, len(st.spec.Tracks))
	for i := range ids {
		ids[i] = i + 1
	}
	return ids
}

func (st *streamState) version() (PLVersion, int) {
	i := st.polls
	if i >= len(st.spec.Versions) {
		i = len(st.spec.Versions) - 1
	}
	st.polls++
	return st.spec.Versions[i], i
}

func ext(c string) string {
	if c == "ts" {
		return "ts"
	}
	return "mp4"
}

func (st *streamState) segDurMs() int {
	if st.spec.SegDurMs > 0 {
		return st.spec.SegDurMs
	}
	return 1000
}

// playlist text of one version (written by hand: independent of pkg/playlist)
func (st *streamState) playlist(j int, v PLVersion, base string) (string, error) {
	var sb strings.Builder
	sb.WriteString("#EXTM3U\n#EXT-X-VERSION:7\n")
	fmt.Fprintf(&sb, "#EXT-X-TARGETDURATION:%d\n", (st.segDurMs()+999)/1000)
	if st.spec.LL {
		sb.WriteString("#EXT-X-SERVER-CONTROL:CAN-BLOCK-RELOAD=YES,PART-HOLD-BACK=1.00000")
		if st.spec.CanSkip {
			sb.WriteString(",CAN-SKIP-UNTIL=6.00000")
		}
		fmt.Fprintf(&sb, "\n#EXT-X-PART-INF:PART-TARGET=%.5f\n", float64(st.segDurMs())/float64(PPS)/1000)
	}
	fmt.Fprintf(&sb, "#EXT-X-MEDIA-SEQUENCE:%d\n", v.MS)
	if v.Type != "" {
		fmt.Fprintf(&sb, "#EXT-X-PLAYLIST-TYPE:%s\n", v.Type)
	}
	pre := ""
	if st.spec.AbsURL {
		pre = base + "/"
	}
	if st.dirs {
		switch st.spec.UriStyle {
		case "abspath":
			pre = "/live/media/"
		case "absurl":
			pre = base + "/live/media/"
		case "sub":
			pre = "m/"
		default:
			pre = "../media/"
		}
	}
	q := ""
	if st.spec.Query != "" {
		q = "?" + st.spec.Query
	}
	if st.spec.Container == "fmp4" {
		if st.spec.ByteRange {
			fmt.Fprintf(&sb, "#EXT-X-MAP:URI=\"%ss%d_all.bin%s\",BYTERANGE=\"%d@0\"\n", pre, j, q, len(st.init))
		} else {
			fmt.Fprintf(&sb, "#EXT-X-MAP:URI=\"%ss%d_init.mp4%s\"\n", pre, j, q)
		}
	}
	for k := 0; k < v.N; k++ {
		msn := v.MS + k
		if st.spec.DateTime {
			ms := int64(msn)*int64(st.segDurMs()) + int64(msn)*st.spec.DTJump
			fmt.Fprintf(&sb, "#EXT-X-PROGRAM-DATE-TIME:%s\n", t0.Add(time.Duration(ms)*time.Millisecond).Format("2006-01-02T15:04:05.000Z07:00"))
		}
		fmt.Fprintf(&sb, "#EXTINF:%.5f,\n", float64(st.segDurMs())/1000)
		if st.spec.ByteRange {
			if err := st.ensureRange(msn); err != nil {
				return "", err
			}
			r := st.ranges[msn]
			if st.spec.NoStart && k == 0 && st.spec.Container == "ts" && r[0] == 0 {
				fmt.Fprintf(&sb, "#EXT-X-BYTERANGE:%d\n", r[1])
			} else {
				fmt.Fprintf(&sb, "#EXT-X-BYTERANGE:%d@%d\n", r[1], r[0])
			}
			fmt.Fprintf(&sb, "%ss%d_all.bin%s\n", pre, j, q)
		} else {
			fmt.Fprintf(&sb, "%ss%d_seg%d.%s%s\n", pre, j, msn, ext(st.spec.Container), q)
		}
	}
	if st.spec.LL && v.Hint > 0 {
		if st.spec.HintRanges {
			if err := st.ensurePartRange(v.Hint); err != nil {
				return "", err
			}
		}
		for p := (v.MS+v.N)*PPS + 1; p < v.Hint; p++ {
			if rg, ok := st.pranges[p]; ok && st.spec.HintRanges {
				fmt.Fprintf(&sb, "#EXT-X-PART:DURATION=%.5f,URI=\"%ss%d_parts.bin%s\",BYTERANGE=\"%d@%d\",INDEPENDENT=YES\n",
					float64(st.segDurMs())/float64(PPS)/1000, pre, j, q, rg[1], rg[0])
				continue
			}
			fmt.Fprintf(&sb, "#EXT-X-PART:DURATION=%.5f,URI=\"%ss%d_part%d.mp4%s\",INDEPENDENT=YES\n",
				float64(st.segDurMs())/float64(PPS)/1000, pre, j, p, q)
		}
		if st.spec.HintRanges {
			rg := st.pranges[v.Hint]
			fmt.Fprintf(&sb, "#EXT-X-PRELOAD-HINT:TYPE=PART,URI=\"%ss%d_parts.bin%s\",BYTERANGE-START=%d,BYTERANGE-LENGTH=%d\n", pre, j, q, rg[0], rg[1])
		} else {
			fmt.Fprintf(&sb, "#EXT-X-PRELOAD-HINT:TYPE=PART,URI=\"%ss%d_part%d.mp4%s\"\n", pre, j, v.Hint, q)
		}
	}
	if v.End {
		sb.WriteString("#EXT-X-ENDLIST\n")
	}
	return sb.String(), nil
}

// byte-range addressing: segments are laid out in one file in msn order starting at the first one requested
func (st *streamState) ensureRange(msn int) error {
	if _, ok := st.ranges[msn]; ok {
		return nil
	}
	if st.file == nil && st.spec.Container == "fmp4" {
		st.file = append([]byte(nil), st.init...)
	}
	// lay out every missing msn up to the requested one (keeps offsets deterministic)
	first := st.spec.Versions[0].MS
	for m := first; m <= msn; m++ {
		if _, ok := st.ranges[m]; ok {
			continue
		}
		b, err := st.segment(m)
		if err != nil {
			return err
		}
		st.ranges[m] = [2]int{len(st.file), len(b)}
		st.file = append(st.file, b...)
	}
	return nil
}

var reSeg = regexp.MustCompile(`^/s(\d+)_seg(\d+)\.(ts|mp4)$`)
var rePl = regexp.MustCompile(`^/s(\d+)\.m3u8$`)
var reInit = regexp.MustCompile(`^/s(\d+)_init\.mp4$`)
var rePart = regexp.MustCompile(`^/s(\d+)_part(\d+)\.mp4$`)
var reAll = regexp.MustCompile(`^/s(\d+)_all\.bin$`)
var reParts = regexp.MustCompile(`^/s(\d+)_parts\.bin$`)

type runner struct {
	sc      Scenario
	w       *trace.W
	streams []*streamState
	stub    *Stub
	client  *gohlslib.Client
	faults  map[int]string
	mu      sync.Mutex
	closed  atomic.Bool
	waitGot atomic.Int64
	cbAfter atomic.Int64
	events  []trace.M
	seen    map[string]int
	tstream []int // global track index -> stream index (all synthesised tracks are supported ones)
}

func (r *runner) per(j int) int {
	s := r.streams[j].spec
	if s.LL || s.PerSeg == 0 {
		return 1
	}
	return s.PerSeg
}

func (r *runner) emit(m trace.M) {
	r.mu.Lock()
	r.events = append(r.events, m)
	r.mu.Unlock()
}

func codecsOf(st StreamSpec) string {
	var cs []string
	for _, t := range st.Tracks {
		switch t.Codec {
		case "h264":
			cs = append(cs, "avc1.42c01e")
		case "aac":
			cs = append(cs, "mp4a.40.2")
		case "opus":
			cs = append(cs, "opus")
		}
	}
	return strings.Join(cs, ",")
}

func (r *runner) handle(i int, req *http.Request) (Resp, string, map[string]interface{}) {
	path := req.URL.Path
	if r.sc.Dirs {
		path = r.flatten(path)
	}
	fault := r.faults[i]
	info := map[string]interface{}{"s": -1, "id": -1, "ver": 0, "ms": 0, "n": 0, "end": 0, "vod": 0, "hint": 0, "mut": ""}
	resp := Resp{Fault: fault}
	kind := "other"
	switch {
	case path == "/index.m3u8":
		kind = "multi"
		var sb strings.Builder
		sb.WriteString("#EXTM3U\n#EXT-X-VERSION:7\n#EXT-X-INDEPENDENT-SEGMENTS\n")
		for j := 1; j < len(r.streams); j++ {
			s := r.streams[j].spec
			def := "NO"
			if s.Default {
				def = "YES"
			}
			fmt.Fprintf(&sb, "#EXT-X-MEDIA:TYPE=AUDIO,GROUP-ID=\"aud\",NAME=\"%s\",LANGUAGE=\"%s\",AUTOSELECT=YES,DEFAULT=%s,URI=\"%ss%d.m3u8%s\"\n", s.Name, s.Lang, def, r.plDir(), j, qs(s.Query))
		}
		cs := codecsOf(r.streams[0].spec)
		for j := 1; j < len(r.streams); j++ {
			cs += "," + codecsOf(r.streams[j].spec)
		}
		aud := ""
		if len(r.streams) > 1 {
			aud = ",AUDIO=\"aud\""
		}
		fmt.Fprintf(&sb, "#EXT-X-STREAM-INF:BANDWIDTH=1000000,CODECS=\"%s\"%s\n%ss0.m3u8%s\n", cs, aud, r.plDir(), qs(r.streams[0].spec.Query))
		resp.Body = []byte(sb.String())
	case rePl.MatchString(path):
		kind = "pl"
		j, _ := strconv.Atoi(rePl.FindStringSubmatch(path)[1])
		st := r.streams[j]
		v, vi := st.version()
		txt, err := st.playlist(j, v, "http://stub")
		if err != nil {
			resp.Status = 500
		}
		resp.Body = []byte(txt)
		info["s"], info["ver"], info["ms"], info["n"], info["end"] = j, vi+1, v.MS, v.N, b2i(v.End)
		info["vod"] = b2i(v.Type == "VOD")
		info["hint"] = v.Hint
		resp.Delay = time.Duration(v.Wait) * time.Millisecond
	case reInit.MatchString(path):
		kind = "init"
		j, _ := strconv.Atoi(reInit.FindStringSubmatch(path)[1])
		resp.Body = r.streams[j].init
		info["s"] = j
	case reSeg.MatchString(path):
		kind = "seg"
		m := reSeg.FindStringSubmatch(path)
		j, _ := strconv.Atoi(m[1])
		msn, _ := strconv.Atoi(m[2])
		b, err := r.streams[j].segment(msn)
		if err != nil {
			resp.Status = 500
		}
		resp.Body = b
		info["s"], info["id"] = j, msn
	case rePart.MatchString(path):
		kind = "part"
		m := rePart.FindStringSubmatch(path)
		j, _ := strconv.Atoi(m[1])
		pn, _ := strconv.Atoi(m[2])
		b, err := r.streams[j].part(pn)
		if err != nil {
			resp.Status = 500
		}
		resp.Body = b
		info["s"], info["id"] = j, pn
	case reParts.MatchString(path):
		j, _ := strconv.Atoi(reParts.FindStringSubmatch(path)[1])
		st := r.streams[j]
		info["s"] = j
		kind = "range"
		var a, z int
		if _, err := fmt.Sscanf(req.Header.Get("Range"), "bytes=%d-%d", &a, &z); err != nil || a < 0 || z >= len(st.pfile) || a > z {
			resp.Body = st.pfile
			info["id"] = -1
		} else {
			resp.Body = st.pfile[a : z+1]
			resp.Status = 206
			info["id"] = -2
			for pn, rr := range st.pranges {
				if rr[0] == a && rr[1] == z-a+1 {
					info["id"] = pn
					kind = "part"
				}
			}
		}
	case reAll.MatchString(path):
		j, _ := strconv.Atoi(reAll.FindStringSubmatch(path)[1])
		st := r.streams[j]
		info["s"] = j
		rg := req.Header.Get("Range")
		kind = "range"
		var a, z int
		if _, err := fmt.Sscanf(rg, "bytes=%d-%d", &a, &z); err != nil || a < 0 || z >= len(st.file) || a > z {
			// no (or a bad) Range header: the whole file
			resp.Body = st.file
			info["id"] = -1
		} else {
			resp.Body = st.file[a : z+1]
			resp.Status = 206
			info["id"] = -2
			if st.spec.Container == "fmp4" && a == 0 && z+1 == len(st.init) {
				kind = "init"
			}
			for msn, rr := range st.ranges {
				if rr[0] == a && rr[1] == z-a+1 {
					info["id"] = msn
					kind = "seg"
				}
			}
		}
	default:
		resp.Status = 404
	}
	for _, f := range r.sc.Faults {
		if f.On != "" && f.On == kind && info["s"] == f.S {
			key := fmt.Sprintf("f%d/%s", f.S, kind)
			if r.seen[key] == f.Nth {
				fault = f.Kind
				resp.Fault = f.Kind
			}
			r.seen[key]++
		}
	}
	if kind == "seg" {
		if j, ok := info["s"].(int); ok && j >= 0 && j < len(r.streams) && r.streams[j].spec.SegDelayMs > 0 {
			resp.Delay += time.Duration(r.streams[j].spec.SegDelayMs) * time.Millisecond
		}
	}
	if r.sc.Mut != "" && fault == "" && kind == r.sc.MutKind && info["s"] == r.sc.MutS {
		key := fmt.Sprintf("%d/%s", r.sc.MutS, kind)
		if r.seen[key] == r.sc.MutNth {
			id, _ := info["id"].(int)
			resp.Body = r.mutate(r.sc.Mut, kind, resp.Body, r.sc.MutS, id)
			info["mut"] = r.sc.Mut
		}
		r.seen[key]++
	}
	info["q"] = req.URL.RawQuery
	info["range"] = req.Header.Get("Range")
	info["fault"] = fault
	e := trace.M{"ev": "req", "i": i, "kind": kind}
	for k, v := range info {
		e[k] = v
	}
	r.emit(e)
	return resp, kind, info
}

// flatten maps the directory layout onto the flat names the handler knows; a file requested under the wrong directory is
// not found (a client that resolves relative URIs wrongly ends up there).
func (r *runner) flatten(path string) string {
	i := strings.LastIndexByte(path, '/')
	dir, file := path[:i+1], "/"+path[i+1:]
	switch {
	case file == "/index.m3u8":
		if dir == "/live/" {
			return file
		}
	case rePl.MatchString(file):
		if dir == "/live/pl/" {
			return file
		}
	default:
		m := regexp.MustCompile(`^/s(\d+)_`).FindStringSubmatch(file)
		if m != nil {
			j, _ := strconv.Atoi(m[1])
			want := "/live/media/"
			if j < len(r.streams) && r.streams[j].spec.UriStyle == "sub" {
				want = "/live/pl/m/"
			}
			if dir == want {
				return file
			}
		}
	}
	return "/notfound" + path
}

func (r *runner) plDir() string {
	if r.sc.Dirs {
		return "pl/"
	}
	return ""
}

func qs(q string) string {
	if q == "" {
		return ""
	}
	return "?" + q
}

func b2i(b bool) int {
	if b {
		return 1
	}
	return 0
}

func errClass(err error) string {
	if err == nil {
		return "nil"
	}
	s := err.Error()
	switch {
	case errors.Is(err, gohlslib.ErrClientEOS):
		return "eos"
	case s == "terminated":
		return "terminated"
	case strings.Contains(s, "bad status code"):
		return "status"
	case strings.Contains(s, "connection refused"):
		return "transport"
	case strings.Contains(s, "stalled body") || strings.Contains(s, "context canceled"):
		return "cancelled"
	case strings.Contains(s, "next segment not found"):
		return "missing"
	case strings.Contains(s, "playback is too late"):
		return "toolate"
	case strings.Contains(s, "aren't enough segments"):
		return "notenough"
	case strings.Contains(s, "no segments found"):
		return "nosegments"
	case strings.Contains(s, "preload hint disappeared"):
		return "hintgone"
	case s == "EOF":
		return "unparsable"
	case strings.Contains(s, "ontracks"):
		return "ontracks"
	}
	return "other:" + s
}

func clientGoroutines() int {
	buf := make([]byte, 1<<20)
	n := runtime.Stack(buf, true)
	c := 0
	for _, blk := range bytes.Split(buf[:n], []byte("\n\n")) {
		if bytes.Contains(blk, []byte("gohlslib/v2.(*client")) || bytes.Contains(blk, []byte("gohlslib/v2.(*Client")) {
			c++
		}
	}
	return c
}

// workingGoroutines counts the client's goroutines that are still doing something: a goroutine whose only gohlslib
// frames are the pool wrapper (after wg.Done) or Client.run (after the send on the buffered result channel) is on its
// way out and is not counted.
func workingGoroutines() int {
	buf := make([]byte, 1<<20)
	n := runtime.Stack(buf, true)
	c := 0
	for _, blk := range bytes.Split(buf[:n], []byte("\n\n")) {
		deep := false
		for _, ln := range bytes.Split(blk, []byte("\n")) {
			if !bytes.HasPrefix(ln, []byte("github.com/bluenviron/gohlslib/v2.")) {
				continue
			}
			if bytes.Contains(ln, []byte("(*clientRoutinePool).add.func1")) || bytes.Contains(ln, []byte("(*Client).run(")) {
				continue
			}
			// the user's own goroutine inside Close (the harness' timer) is not a goroutine of the client
			if bytes.Contains(ln, []byte("(*Client).Close(")) {
				continue
			}
			deep = true
		}
		if deep {
			c++
			lastWorking = string(blk)
		}
	}
	return c
}

// lastWorking holds the stack of the last goroutine workingGoroutines counted (diagnostics in the trace).
var lastWorking string

// Run executes one scenario and appends its trace.
func Run(w *trace.W, idx int, sc Scenario) error {
	r := &runner{sc: sc, w: w, faults: map[int]string{}, seen: map[string]int{}}
	for _, f := range sc.Faults {
		if f.On == "" {
			r.faults[f.Req] = f.Kind
		}
	}
	for _, s := range sc.Streams {
		st := &streamState{spec: s, segs: map[int][]byte{}, ranges: map[int][2]int{}, dirs: sc.Dirs}
		if s.Container == "fmp4" {
			b, err := InitFMP4(s.Tracks, st.ids())
			if err != nil {
				return err
			}
			st.init = b
		}
		r.streams = append(r.streams, st)
		for range s.Tracks {
			r.tstream = append(r.tstream, len(r.streams)-1)
		}
	}
	r.stub = &Stub{Handler: r.handle}
	var client *gohlslib.Client
	var closeOnce sync.Once
	doClose := func() {
		closeOnce.Do(func() { r.closed.Store(true) })
		client.Close()
		if sc.CloseTwice {
			client.Close()
		}
	}
	r.stub.OnReq = func(i int, kind string) {
		if sc.CloseReq >= 0 && i == sc.CloseReq {
			doClose()
		}
	}
	uri := "http://stub/s0.m3u8" + qs(sc.Streams[0].Query)
	if sc.Entry == "multi" {
		uri = "http://stub/index.m3u8"
	}
	if sc.Dirs {
		uri = "http://stub/live/pl/s0.m3u8" + qs(sc.Streams[0].Query)
		if sc.Entry == "multi" {
			uri = "http://stub/live/index.m3u8"
		}
	}
	var trackList []*gohlslib.Track
	var dataN, inCb atomic.Int64
	ended := atomic.Bool{}
	client = &gohlslib.Client{
		URI:                       uri,
		HTTPClient:                &http.Client{Transport: r.stub},
		OnDownloadPrimaryPlaylist: func(string) {},
		OnDownloadStreamPlaylist:  func(string) {},
		OnDownloadSegment:         func(string) {},
		OnDownloadPart:            func(string) {},
		OnDecodeError:             func(err error) { r.emit(trace.M{"ev": "decerr"}) },
	}
	client.OnTracks = func(tracks []*gohlslib.Track) error {
		trackList = tracks
		tl := []trace.M{}
		for ti, t := range tracks {
			ti, t := ti, t
			cn := "?"
			switch t.Codec.(type) {
			case *codecs.H264:
				cn = "h264"
			case *codecs.MPEG4Audio:
				cn = "aac"
			case *codecs.Opus:
				cn = "opus"
			}
			tl = append(tl, trace.M{"codec": cn, "rate": t.ClockRate, "name": t.Name, "lang": t.Language, "def": b2i(t.IsDefault)})
			cb := func(pts, dts int64, data [][]byte, sub int) {
				if ended.Load() {
					r.cbAfter.Add(1)
				}
				inCb.Add(1)
				defer inCb.Add(-1)
				k := dataN.Add(1)
				if sc.SlowData > 0 {
					time.Sleep(time.Duration(sc.SlowData) * time.Millisecond)
				}
				if k == 1 && sc.BlockData > 0 {
					time.Sleep(time.Duration(sc.BlockData) * time.Millisecond)
				}
				tt, id, ok := IdentAU(cn, data)
				same := 0
				if ok && ti < len(r.tstream) {
					per := r.per(r.tstream[ti])
					if sameAU(cn, data, expectAU(cn, tt, id, (id-1)%per == 0)) {
						same = 1
					}
				}
				ev := trace.M{"ev": "data", "t": ti + 1, "st": tt, "id": id, "idok": b2i(ok), "same": same, "pts": pts, "dts": dts, "abs": int64(-1), "sub": sub}
				if at, ok := client.AbsoluteTime(t); ok {
					ev["abs"] = at.Sub(t0).Microseconds()
				}
				r.emit(ev)
				if (sc.CloseWhen == "data" && k == 2) || (sc.CloseData > 0 && int(k) == sc.CloseData) {
					doClose()
				}
			}
			switch t.Codec.(type) {
			case *codecs.H264:
				client.OnDataH26x(t, func(pts, dts int64, au [][]byte) { cb(pts, dts, au, 0) })
			case *codecs.MPEG4Audio:
				client.OnDataMPEG4Audio(t, func(pts int64, aus [][]byte) {
					// one callback may carry several access units (one MPEG-TS PES): only the first has a time of its own
					for i, a := range aus {
						cb(pts, pts, [][]byte{a}, i)
					}
				})
			case *codecs.Opus:
				client.OnDataOpus(t, func(pts int64, ps [][]byte) { cb(pts, pts, ps, 0) })
			}
		}
		r.emit(trace.M{"ev": "tracks", "list": tl})
		if sc.CloseWhen == "tracks" {
			doClose()
		}
		if sc.OnTracksErr {
			return fmt.Errorf("ontracks refused")
		}
		return nil
	}
	before := clientGoroutines()
	beforeW := workingGoroutines()
	start := time.Now()
	if err := client.Start(); err != nil {
		return err
	}
	if sc.CloseAtMs > 0 {
		tm := time.AfterFunc(time.Duration(sc.CloseAtMs)*time.Millisecond, doClose)
		defer tm.Stop()
	}
	maxMs := sc.MaxMs
	if maxMs == 0 {
		maxMs = 4000
	}
	var waitErr error
	got := 0
	select {
	case waitErr = <-client.Wait():
		got = 1
	case <-time.After(time.Duration(maxMs) * time.Millisecond):
	}
	// at the very moment the outcome is known: nothing of the client may still be working, no callback in progress
	inCbAtWait := int(inCb.Load())
	aliveNow := 0
	who := ""
	if got == 1 {
		aliveNow = workingGoroutines() - beforeW
		if aliveNow > 0 {
			// a goroutine caught on its way out (between its last statement and the end of its function) is not "still
			// running": what counts is still there a few milliseconds later (a paced sample, a callback, a blocked hand-off are)
			time.Sleep(3 * time.Millisecond)
			if again := workingGoroutines() - beforeW; again < aliveNow {
				aliveNow = again
			}
		}
		if aliveNow < 0 {
			aliveNow = 0
		}
		if aliveNow > 0 {
			who = lastWorking
		}
	}
	scriptClosed := r.closed.Load()
	ended.Store(true)
	if got == 0 {
		// no value within the budget: Close and wait again (a client that ignores Close is a violation)
		if os.Getenv("VERIF_DEBUG") != "" {
			buf := make([]byte, 1<<20)
			n := runtime.Stack(buf, true)
			os.Stderr.Write(buf[:n])
		}
		// a client that is sleeping in the real-time pacing of a sample (at most clientMaxDTSRTCDiff = 10 s) is not wedged
		pacing := 0
		{
			buf := make([]byte, 1<<20)
			n := runtime.Stack(buf, true)
			for _, blk := range bytes.Split(buf[:n], []byte("\n\n")) {
				if bytes.Contains(blk, []byte("[select")) && bytes.Contains(blk, []byte("(*clientTrack).handleData")) {
					pacing = 1
				}
			}
		}
		doClose()
		select {
		case waitErr = <-client.Wait():
			got = 1
			r.emit(trace.M{"ev": "forcedclose", "pacing": pacing})
		case <-time.After(3 * time.Second):
		}
	}
	if sc.CloseWhen == "eos" {
		doClose()
	}
	// a second value must never arrive
	extra := 0
	select {
	case <-client.Wait():
		extra = 1
	case <-time.After(30 * time.Millisecond):
	}
	// goroutines of the client must be gone
	alive := 0
	for k := 0; k < 40; k++ {
		alive = clientGoroutines() - before
		if alive <= 0 {
			break
		}
		time.Sleep(5 * time.Millisecond)
	}
	_ = trackList
	_ = start

	w.Emit(trace.M{"ev": "reset", "i": idx, "tag": sc.Tag, "entry": sc.Entry, "sc": sc})
	r.mu.Lock()
	for _, e := range r.events {
		w.Emit(e)
	}
	r.mu.Unlock()
	w.Emit(trace.M{"ev": "wait", "got": got, "extra": extra, "err": errClass(waitErr), "closed": b2i(scriptClosed),
		"alive": alive, "aliveNow": aliveNow, "who": who, "inCb": inCbAtWait, "cbAfter": int(r.cbAfter.Load()), "ms": int(time.Since(start).Milliseconds())})
	w.Emit(trace.M{"ev": "end"})
	return nil
}

// RunAll runs every scenario of a JSON file; a marker file records the scenario in progress so that a crash
// (panic in a client goroutine) can be attributed.
func RunAll(path, out, marker string) (int, error) {
	b, err := os.ReadFile(path)
	if err != nil {
		return 0, err
	}
	var scs []Scenario
	if err := json.Unmarshal(b, &scs); err != nil {
		return 0, err
	}
	w, err := trace.Create(out)
	if err != nil {
		return 0, err
	}
	for i, sc := range scs {
		if marker != "" {
			os.WriteFile(marker, []byte(strconv.Itoa(i)), 0o644) //nolint:errcheck
		}
		if err := Run(w, i, sc); err != nil {
			w.Emit(trace.M{"ev": "reset", "i": i, "tag": sc.Tag})
			w.Emit(trace.M{"ev": "harnesserr", "msg": err.Error()})
			w.Emit(trace.M{"ev": "end"})
		}
		w.Flush()
	}
	return len(scs), w.Close()
}
