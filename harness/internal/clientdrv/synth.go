package clientdrv

import (
	"bytes"
	"fmt"

	"github.com/bluenviron/mediacommon/v2/pkg/codecs/h264"
	"github.com/bluenviron/mediacommon/v2/pkg/codecs/mpeg4audio"
	"github.com/bluenviron/mediacommon/v2/pkg/formats/fmp4"
	"github.com/bluenviron/mediacommon/v2/pkg/formats/fmp4/seekablebuffer"
	"github.com/bluenviron/mediacommon/v2/pkg/formats/mpegts"

	"verif/harness/internal/muxdrv"
)

// TrackDef is one track of a synthesised stream.
type TrackDef struct {
	Codec string `json:"codec"` // h264 | aac | opus
	Scale int    `json:"scale"` // fMP4 timescale (MPEG-TS: always 90000)
	Rate  int    `json:"rate"`  // audio sample rate
}

// Unit is one access unit in container time of its track.
type Unit struct {
	ID  int   `json:"id"`
	DTS int64 `json:"dts"`
	Off int32 `json:"off"` // pts - dts
	Dur int64 `json:"dur"`
	RA  bool  `json:"ra"`
}

func videoAU(track, id int, ra bool) [][]byte {
	sps, pps := muxdrv.H264Params(1)
	hdr := byte(0x41)
	if ra {
		hdr = 0x65
	}
	slice := append([]byte{hdr}, muxdrv.IDBytes(track, id, 12)...)
	if ra {
		return [][]byte{sps, pps, slice}
	}
	return [][]byte{slice}
}

func audioAU(track, id int) []byte { return muxdrv.IDBytes(track, id, 10) }

func opusPacket(track, id int) []byte {
	return append([]byte{1 << 3}, muxdrv.IDBytes(track, id, 10)...) // 20 ms
}

func expectAU(codec string, st, id int, ra bool) [][]byte {
	switch codec {
	case "h264":
		return videoAU(st, id, ra)
	case "aac":
		return [][]byte{audioAU(st, id)}
	case "opus":
		return [][]byte{opusPacket(st, id)}
	}
	return nil
}

// sameAU compares a delivered access unit with the written one (access unit delimiters, which the MPEG-TS
// writer adds, are not part of the written unit).
func sameAU(codec string, got, want [][]byte) bool {
	if codec == "h264" {
		var g [][]byte
		for _, n := range got {
			if len(n) > 0 && n[0]&0x1f == 9 {
				continue
			}
			g = append(g, n)
		}
		got = g
	}
	if len(got) != len(want) {
		return false
	}
	for i := range got {
		if !bytes.Equal(got[i], want[i]) {
			return false
		}
	}
	return true
}

// IdentAU finds (track, id) in a delivered access unit / packet list.
func IdentAU(codec string, data [][]byte) (int, int, bool) {
	for _, d := range data {
		switch codec {
		case "h264":
			if len(d) > 1 && (d[0]&0x1f == 1 || d[0]&0x1f == 5) {
				return muxdrv.ParseID(d[1:])
			}
		case "aac":
			return muxdrv.ParseID(d)
		case "opus":
			if len(d) > 1 {
				return muxdrv.ParseID(d[1:])
			}
		}
	}
	return 0, 0, false
}

func fmp4Codec(t TrackDef) fmp4.Codec {
	switch t.Codec {
	case "h264":
		sps, pps := muxdrv.H264Params(1)
		return &fmp4.CodecH264{SPS: sps, PPS: pps}
	case "aac":
		r := t.Rate
		if r == 0 {
			r = 48000
		}
		return &fmp4.CodecMPEG4Audio{Config: mpeg4audio.Config{Type: 2, SampleRate: r, ChannelCount: 2}}
	case "opus":
		return &fmp4.CodecOpus{ChannelCount: 2}
	// codecs that fMP4 can carry and gohlslib has no decoder for (C13)
	case "ac3":
		return &fmp4.CodecAC3{SampleRate: 48000, ChannelCount: 2, Fscod: 0, Bsid: 8, Bsmod: 0, Acmod: 2, BitRateCode: 7}
	case "mjpeg":
		return &fmp4.CodecMJPEG{Width: 640, Height: 480}
	case "lpcm":
		return &fmp4.CodecLPCM{BitDepth: 16, SampleRate: 48000, ChannelCount: 2}
	case "mp1a":
		return &fmp4.CodecMPEG1Audio{SampleRate: 48000, ChannelCount: 2}
	}
	return nil
}

// InitFMP4 builds an init segment; ids[i] is the track id of tracks[i].
func InitFMP4(tracks []TrackDef, ids []int) ([]byte, error) {
	var in fmp4.Init
	for i, t := range tracks {
		in.Tracks = append(in.Tracks, &fmp4.InitTrack{ID: ids[i], TimeScale: uint32(t.Scale), Codec: fmp4Codec(t)})
	}
	var w seekablebuffer.Buffer
	if err := in.Marshal(&w); err != nil {
		return nil, err
	}
	return w.Bytes(), nil
}

// FragFMP4 builds one fragment with the given units per track (tidx -> units).
func FragFMP4(seq int, tracks []TrackDef, ids []int, units map[int][]Unit) ([]byte, error) {
	part := fmp4.Part{SequenceNumber: uint32(seq)}
	for ti, t := range tracks {
		us := units[ti]
		if len(us) == 0 {
			continue
		}
		pt := &fmp4.PartTrack{ID: ids[ti], BaseTime: uint64(us[0].DTS)}
		for _, u := range us {
			ps := &fmp4.PartSample{Duration: uint32(u.Dur), PTSOffset: u.Off}
			switch t.Codec {
			case "h264":
				if err := ps.FillH264(u.Off, videoAU(ti+1, u.ID, u.RA)); err != nil {
					return nil, err
				}
				ps.Duration = uint32(u.Dur)
			case "aac":
				ps.Payload = audioAU(ti+1, u.ID)
			case "opus":
				ps.Payload = opusPacket(ti+1, u.ID)
			}
			pt.Samples = append(pt.Samples, ps)
		}
		part.Tracks = append(part.Tracks, pt)
	}
	var w seekablebuffer.Buffer
	if err := part.Marshal(&w); err != nil {
		return nil, err
	}
	return w.Bytes(), nil
}

// SegTS builds one MPEG-TS segment; units are in 90 kHz and interleaved by DTS.
func SegTS(tracks []TrackDef, units map[int][]Unit) ([]byte, error) {
	return SegTSGrouped(tracks, units, 1)
}

// SegTSGrouped is SegTS with up to ausPerPES audio access units per PES packet.
func SegTSGrouped(tracks []TrackDef, units map[int][]Unit, ausPerPES int) ([]byte, error) {
	var buf bytes.Buffer
	var mt []*mpegts.Track
	for _, t := range tracks {
		switch t.Codec {
		case "h264":
			mt = append(mt, &mpegts.Track{Codec: &mpegts.CodecH264{}})
		case "aac":
			r := t.Rate
			if r == 0 {
				r = 48000
			}
			mt = append(mt, &mpegts.Track{Codec: &mpegts.CodecMPEG4Audio{Config: mpeg4audio.Config{Type: 2, SampleRate: r, ChannelCount: 2}}})
		default:
			return nil, fmt.Errorf("codec %s not supported in MPEG-TS", t.Codec)
		}
	}
	w := &mpegts.Writer{W: &buf, Tracks: mt}
	if err := w.Initialize(); err != nil {
		return nil, err
	}
	type item struct {
		ti int
		u  Unit
	}
	var all []item
	for ti := range tracks {
		for _, u := range units[ti] {
			all = append(all, item{ti, u})
		}
	}
	// stable order by DTS (mod nothing: the caller keeps them increasing inside a segment)
	for i := 1; i < len(all); i++ {
		less := func(a, b item) bool {
			if a.u.DTS != b.u.DTS {
				return a.u.DTS < b.u.DTS
			}
			// ties: the (leading) video track first
			return tracks[a.ti].Codec == "h264" && tracks[b.ti].Codec != "h264"
		}
		for j := i; j > 0 && less(all[j], all[j-1]); j-- {
			all[j], all[j-1] = all[j-1], all[j]
		}
	}
	const wrap = int64(1) << 33
	// AusPerPES > 1: consecutive access units of an audio track (that no unit of another track separates) share one PES
	for k := 0; k < len(all); k++ {
		it := all[k]
		dts := ((it.u.DTS % wrap) + wrap) % wrap
		pts := ((it.u.DTS+int64(it.u.Off))%wrap + wrap) % wrap
		switch tracks[it.ti].Codec {
		case "h264":
			if err := w.WriteH264(mt[it.ti], pts, dts, videoAU(it.ti+1, it.u.ID, it.u.RA)); err != nil {
				return nil, err
			}
		case "aac":
			aus := [][]byte{audioAU(it.ti+1, it.u.ID)}
			for len(aus) < ausPerPES && k+1 < len(all) && all[k+1].ti == it.ti {
				k++
				aus = append(aus, audioAU(all[k].ti+1, all[k].u.ID))
			}
			if err := w.WriteMPEG4Audio(mt[it.ti], pts, aus); err != nil {
				return nil, err
			}
		}
	}
	return buf.Bytes(), nil
}

var _ = h264.NALUTypeIDR
