// Package clientdrv runs a real gohlslib.Client against an in-process stub server (an http.RoundTripper, no
// sockets) that serves scripted playlist histories and synthesised MPEG-TS / fMP4 media, injects faults, and
// logs every request; the client's callbacks, the value(s) yielded by Wait and the goroutines left behind are
// recorded as ndjson for TLC (C09-C13, end-to-end part of C20).
package clientdrv

import (
	"bytes"
	"fmt"
	"io"
	"net/http"
	"sync"
	"time"
)

// Resp is what the stub answers to one request.
type Resp struct {
	Status int
	Body   []byte
	CT     string
	Fault  string // "" | "status" | "transport" | "stall"
	Delay  time.Duration
}

// ReqLog is one logged request.
type ReqLog struct {
	I     int
	Path  string
	Query string
	Range string
	Kind  string
	Info  map[string]interface{}
}

// Stub implements http.RoundTripper.
type Stub struct {
	mu      sync.Mutex
	n       int
	Log     []ReqLog
	Handler func(i int, req *http.Request) (Resp, string, map[string]interface{})
	OnReq   func(i int, kind string) // called after logging, before answering (may block: used to stop the server)
	Delay   time.Duration
}

type stallBody struct {
	ctx interface{ Done() <-chan struct{} }
}

func (b stallBody) Read([]byte) (int, error) {
	<-b.ctx.Done()
	return 0, fmt.Errorf("stalled body cancelled")
}
func (stallBody) Close() error { return nil }

// RoundTrip implements http.RoundTripper.
func (s *Stub) RoundTrip(req *http.Request) (*http.Response, error) {
	s.mu.Lock()
	i := s.n
	s.n++
	resp, kind, info := s.Handler(i, req)
	s.Log = append(s.Log, ReqLog{I: i, Path: req.URL.Path, Query: req.URL.RawQuery, Range: req.Header.Get("Range"), Kind: kind, Info: info})
	s.mu.Unlock()
	if s.OnReq != nil {
		s.OnReq(i, kind)
	}
	if dl := s.Delay + resp.Delay; dl > 0 {
		select {
		case <-time.After(dl):
		case <-req.Context().Done():
			return nil, req.Context().Err()
		}
	}
	switch resp.Fault {
	case "transport":
		return nil, fmt.Errorf("stub: connection refused")
	case "stall":
		return &http.Response{StatusCode: 200, Status: "200 OK", Header: http.Header{}, Body: stallBody{req.Context()}, Request: req}, nil
	case "status":
		return &http.Response{StatusCode: 503, Status: "503", Header: http.Header{}, Body: io.NopCloser(bytes.NewReader(nil)), Request: req}, nil
	}
	st := resp.Status
	if st == 0 {
		st = 200
	}
	h := http.Header{}
	if resp.CT != "" {
		h.Set("Content-Type", resp.CT)
	}
	return &http.Response{StatusCode: st, Status: fmt.Sprint(st), Header: h, Body: io.NopCloser(bytes.NewReader(resp.Body)), Request: req,
		ContentLength: int64(len(resp.Body))}, nil
}
