package clientdrv

import (
	"bytes"
	"regexp"
	"strings"

	"github.com/bluenviron/mediacommon/v2/pkg/formats/fmp4"
	"github.com/bluenviron/mediacommon/v2/pkg/formats/fmp4/seekablebuffer"
	"github.com/bluenviron/mediacommon/v2/pkg/formats/mpegts"
)

// Mutations lists, per request kind, the structure-aware content faults of C13.
var Mutations = map[string][]string{
	"any": {"empty", "garbage", "zeros", "trunc25", "trunc50", "trunc75", "trunc-8", "double"},
	"pl": {"pl-hugeseq", "pl-negdur", "pl-hugedur", "pl-nouri", "pl-swap", "pl-badrange", "pl-badmap", "pl-nover", "pl-longline",
		"pl-targetneg", "pl-dupseg",
		// a tag or an attribute the client relies on is missing (also in a RELOADED playlist, where only the first one was validated)
		"pl-drop:EXT-X-SERVER-CONTROL", "pl-drop:EXT-X-PART-INF", "pl-drop:EXT-X-MAP", "pl-drop:EXT-X-TARGETDURATION",
		"pl-drop:EXT-X-MEDIA-SEQUENCE", "pl-drop:EXT-X-PRELOAD-HINT", "pl-drop:EXT-X-PROGRAM-DATE-TIME", "pl-drop:EXT-X-VERSION",
		"pl-drop:EXT-X-ENDLIST", "pl-drop:EXT-X-PLAYLIST-TYPE", "pl-drop:EXTINF", "pl-drop:EXT-X-PART:",
		"pl-noattr:CAN-BLOCK-RELOAD", "pl-noattr:PART-HOLD-BACK", "pl-noattr:CAN-SKIP-UNTIL", "pl-noattr:URI", "pl-noattr:TYPE",
		"pl-noattr:DURATION", "pl-noattr:PART-TARGET", "pl-noattr:BYTERANGE-START", "pl-noattr:BYTERANGE-LENGTH"},
	"multi": {"pl-swap", "pl-nocodecs", "pl-nouri", "pl-badgroup", "pl-nobandwidth",
		"pl-drop:EXT-X-MEDIA", "pl-drop:EXT-X-STREAM-INF", "pl-drop:EXT-X-INDEPENDENT-SEGMENTS", "pl-drop:EXT-X-VERSION",
		"pl-noattr:URI", "pl-noattr:GROUP-ID", "pl-noattr:TYPE", "pl-noattr:NAME", "pl-noattr:CODECS", "pl-noattr:AUDIO"},
	"init": {"init-unknown-extra", "init-unknown-all", "init-unknown-lead", "init-unknown-audio", "init-scale0", "init-scale0-aud",
		"init-extra", "init-missing", "init-dupid", "init-many", "init-notracks"},
	"seg-fmp4": {"seg-noleading", "seg-extratraf", "seg-emptytrun", "seg-hugedur", "seg-hugebase", "seg-zerodur", "seg-other",
		"seg-backwards", "seg-onlyextra", "seg-manyfrags", "seg-hugeoffset"},
	"seg-ts": {"ts-unsup-only", "ts-unsup-extra", "ts-noleading", "ts-jump", "seg-other", "ts-nopmt", "ts-back"},
}

func garbage(n int) []byte {
	b := make([]byte, n)
	x := uint32(2463534242)
	for i := range b {
		x ^= x << 13
		x ^= x >> 17
		x ^= x << 5
		b[i] = byte(x)
	}
	return b
}

var (
	reSeq    = regexp.MustCompile(`#EXT-X-MEDIA-SEQUENCE:\d+`)
	reInf    = regexp.MustCompile(`#EXTINF:[0-9.]+`)
	reTarget = regexp.MustCompile(`#EXT-X-TARGETDURATION:\d+`)
	reCodecs = regexp.MustCompile(`CODECS="[^"]*"`)
	reBW     = regexp.MustCompile(`BANDWIDTH=\d+,`)
	reMap    = regexp.MustCompile(`#EXT-X-MAP:URI="[^"]*"`)
)

// mutate returns the faulty content served instead of body.
func (r *runner) mutate(name, kind string, body []byte, j, id int) []byte {
	switch name {
	case "empty":
		return nil
	case "garbage":
		return garbage(len(body) + 16)
	case "zeros":
		return make([]byte, len(body))
	case "trunc25":
		return body[:len(body)/4]
	case "trunc50":
		return body[:len(body)/2]
	case "trunc75":
		return body[:len(body)*3/4]
	case "trunc-8":
		if len(body) > 8 {
			return body[:len(body)-8]
		}
		return nil
	case "double":
		return append(append([]byte(nil), body...), body...)
	}
	txt := string(body)
	if strings.HasPrefix(name, "pl-drop:") {
		tag := "#" + strings.TrimPrefix(name, "pl-drop:")
		var out []string
		for _, ln := range strings.Split(txt, "\n") {
			if strings.HasPrefix(ln, tag) {
				continue
			}
			out = append(out, ln)
		}
		return []byte(strings.Join(out, "\n"))
	}
	if strings.HasPrefix(name, "pl-noattr:") {
		re := regexp.MustCompile(`(^|[:,])` + regexp.QuoteMeta(strings.TrimPrefix(name, "pl-noattr:")) + `=("[^"]*"|[^,\n]*)`)
		var out []string
		for _, ln := range strings.Split(txt, "\n") {
			if strings.HasPrefix(ln, "#") {
				ln = re.ReplaceAllString(ln, "$1")
				ln = strings.Replace(ln, ":,", ":", 1)
				ln = strings.Replace(ln, ",,", ",", -1)
				ln = strings.TrimSuffix(ln, ",")
			}
			out = append(out, ln)
		}
		return []byte(strings.Join(out, "\n"))
	}
	switch name {
	case "pl-hugeseq":
		return []byte(reSeq.ReplaceAllString(txt, "#EXT-X-MEDIA-SEQUENCE:99999999999999999999999"))
	case "pl-negdur":
		return []byte(reInf.ReplaceAllString(txt, "#EXTINF:-5.0"))
	case "pl-hugedur":
		return []byte(reInf.ReplaceAllString(txt, "#EXTINF:1e400"))
	case "pl-targetneg":
		return []byte(reTarget.ReplaceAllString(txt, "#EXT-X-TARGETDURATION:-1"))
	case "pl-nouri":
		var out []string
		for _, ln := range strings.Split(txt, "\n") {
			if ln != "" && !strings.HasPrefix(ln, "#") {
				continue
			}
			out = append(out, ln)
		}
		return []byte(strings.Join(out, "\n"))
	case "pl-dupseg":
		var out []string
		for _, ln := range strings.Split(txt, "\n") {
			out = append(out, ln)
			if ln != "" && !strings.HasPrefix(ln, "#") {
				out = append(out, "#EXTINF:0.02000,", ln)
			}
		}
		return []byte(strings.Join(out, "\n"))
	case "pl-swap":
		if kind == "multi" {
			v, _ := r.streams[0].version()
			t, _ := r.streams[0].playlist(0, v, "http://stub")
			return []byte(t)
		}
		return []byte("#EXTM3U\n#EXT-X-VERSION:7\n#EXT-X-STREAM-INF:BANDWIDTH=1000,CODECS=\"avc1.42c01e\"\ns0.m3u8\n")
	case "pl-badrange":
		return []byte(reInf.ReplaceAllString(txt, "#EXT-X-BYTERANGE:abc@-1\n#EXTINF:0.02"))
	case "pl-badmap":
		return []byte(reMap.ReplaceAllString(txt, "#EXT-X-MAP:URI=\"://\\x00\""))
	case "pl-nover":
		return []byte(strings.Replace(txt, "#EXTM3U\n", "", 1))
	case "pl-longline":
		return []byte(strings.Replace(txt, "#EXTM3U\n", "#EXTM3U\n#"+strings.Repeat("A", 1<<20)+"\n", 1))
	case "pl-nocodecs":
		return []byte(reCodecs.ReplaceAllString(txt, "CODECS=\"foo,bar.1\""))
	case "pl-badgroup":
		return []byte(strings.Replace(txt, "AUDIO=\"aud\"", "AUDIO=\"nope\"", 1))
	case "pl-nobandwidth":
		return []byte(reBW.ReplaceAllString(txt, ""))
	}
	if j < 0 || j >= len(r.streams) {
		return body
	}
	st := r.streams[j]
	tracks, ids := st.spec.Tracks, st.ids()
	lead := 0
	for i, t := range tracks {
		if t.Codec == "h264" {
			lead = i
			break
		}
	}
	build := func(tr []TrackDef, id []int) []byte {
		b, err := InitFMP4(tr, id)
		if err != nil {
			return garbage(64)
		}
		return b
	}
	switch name {
	case "init-unknown-extra":
		return build(append(append([]TrackDef(nil), tracks...), TrackDef{Codec: "mjpeg", Scale: 90000}, TrackDef{Codec: "ac3", Scale: 48000}),
			append(append([]int(nil), ids...), 50, 51))
	case "init-unknown-all":
		tr := make([]TrackDef, len(tracks))
		for i, t := range tracks {
			tr[i] = TrackDef{Codec: map[bool]string{true: "mjpeg", false: "ac3"}[t.Codec == "h264"], Scale: t.Scale}
		}
		return build(tr, ids)
	case "init-unknown-lead":
		tr := append([]TrackDef(nil), tracks...)
		tr[lead] = TrackDef{Codec: "mjpeg", Scale: tracks[lead].Scale}
		return build(tr, ids)
	case "init-unknown-audio":
		tr := append([]TrackDef(nil), tracks...)
		for i := range tr {
			if tr[i].Codec != "h264" {
				tr[i] = TrackDef{Codec: "lpcm", Scale: tr[i].Scale}
			}
		}
		return build(tr, ids)
	case "init-scale0":
		tr := append([]TrackDef(nil), tracks...)
		tr[lead].Scale = 0
		return build(tr, ids)
	case "init-scale0-aud":
		tr := append([]TrackDef(nil), tracks...)
		tr[len(tr)-1].Scale = 0
		return build(tr, ids)
	case "init-extra":
		return build(append(append([]TrackDef(nil), tracks...), TrackDef{Codec: "aac", Scale: 48000, Rate: 48000}), append(append([]int(nil), ids...), 60))
	case "init-missing":
		if len(tracks) < 2 {
			return build(tracks[:1], []int{ids[0] + 5})
		}
		return build(tracks[:len(tracks)-1], ids[:len(ids)-1])
	case "init-dupid":
		d := make([]int, len(ids))
		for i := range d {
			d[i] = 1
		}
		return build(tracks, d)
	case "init-many":
		tr := append([]TrackDef(nil), tracks...)
		id := append([]int(nil), ids...)
		for k := 0; k < 12; k++ {
			tr = append(tr, TrackDef{Codec: "aac", Scale: 48000, Rate: 48000})
			id = append(id, 100+k)
		}
		return build(tr, id)
	case "init-notracks":
		return build(nil, nil)
	}
	// segment-level
	units := st.unitsOf(id)
	if st.spec.LL {
		units = map[int][]Unit{}
		for ti := range tracks {
			units[ti] = []Unit{{ID: id, DTS: st.spec.Base[ti] + int64(id-1)*st.spec.Step[ti], Dur: st.spec.Step[ti], RA: true}}
		}
	}
	frag := func(u map[int][]Unit, post func(p *fmp4.Part)) []byte {
		b, err := fragWith(id, tracks, ids, u, post)
		if err != nil {
			return garbage(64)
		}
		return b
	}
	switch name {
	case "seg-noleading":
		u := map[int][]Unit{}
		for ti, us := range units {
			if ti != lead {
				u[ti] = us
			}
		}
		if st.spec.Container == "ts" {
			b, err := SegTS(tracks, u)
			if err != nil {
				return garbage(188)
			}
			return b
		}
		return frag(u, nil)
	case "ts-noleading":
		u := map[int][]Unit{}
		for ti, us := range units {
			if ti != lead {
				u[ti] = us
			}
		}
		b, err := SegTS(tracks, u)
		if err != nil {
			return garbage(188)
		}
		return b
	case "seg-extratraf":
		return frag(units, func(p *fmp4.Part) {
			p.Tracks = append([]*fmp4.PartTrack{{ID: 99, BaseTime: 5, Samples: []*fmp4.PartSample{{Duration: 10, Payload: []byte{1, 2, 3}}}}}, p.Tracks...)
		})
	case "seg-onlyextra":
		return frag(units, func(p *fmp4.Part) {
			p.Tracks = []*fmp4.PartTrack{{ID: 99, BaseTime: 5, Samples: []*fmp4.PartSample{{Duration: 10, Payload: []byte{1, 2, 3}}}}}
		})
	case "seg-emptytrun":
		return frag(units, func(p *fmp4.Part) {
			for _, t := range p.Tracks {
				if t.ID != ids[lead] {
					t.Samples = nil
				}
			}
			p.Tracks = append(p.Tracks, &fmp4.PartTrack{ID: ids[lead], BaseTime: 0})
		})
	case "seg-hugedur":
		return frag(units, func(p *fmp4.Part) {
			for _, t := range p.Tracks {
				for _, s := range t.Samples {
					s.Duration = 0xFFFFFFFF
				}
			}
		})
	case "seg-zerodur":
		return frag(units, func(p *fmp4.Part) {
			for _, t := range p.Tracks {
				for _, s := range t.Samples {
					s.Duration = 0
				}
			}
		})
	case "seg-hugebase":
		return frag(units, func(p *fmp4.Part) {
			for _, t := range p.Tracks {
				t.BaseTime = 1<<63 + 12345
			}
		})
	case "seg-hugeoffset":
		return frag(units, func(p *fmp4.Part) {
			for _, t := range p.Tracks {
				for _, s := range t.Samples {
					s.PTSOffset = -2147483648
				}
			}
		})
	case "seg-backwards":
		return frag(units, func(p *fmp4.Part) {
			for _, t := range p.Tracks {
				t.BaseTime = 0
			}
		})
	case "seg-manyfrags":
		var out []byte
		for k := 0; k < 40; k++ {
			out = append(out, frag(units, nil)...)
		}
		return out
	case "seg-other":
		// the other container's bytes
		if st.spec.Container == "ts" {
			return frag(units, nil)
		}
		var tr []TrackDef
		u := map[int][]Unit{}
		for ti, t := range tracks {
			if t.Codec == "h264" || t.Codec == "aac" {
				u[len(tr)] = units[ti]
				tr = append(tr, t)
			}
		}
		b, err := SegTS(tr, u)
		if err != nil {
			return garbage(188)
		}
		return b
	case "ts-unsup-only":
		return tsUnsupported(tracks, units, false)
	case "ts-unsup-extra":
		return tsUnsupported(tracks, units, true)
	case "ts-jump":
		u := map[int][]Unit{}
		for ti, us := range units {
			for _, x := range us {
				x.DTS += 20 * 90000
				u[ti] = append(u[ti], x)
			}
		}
		b, _ := SegTS(tracks, u)
		return b
	case "ts-back":
		u := map[int][]Unit{}
		for ti, us := range units {
			for _, x := range us {
				x.DTS -= 20 * 90000
				u[ti] = append(u[ti], x)
			}
		}
		b, _ := SegTS(tracks, u)
		return b
	case "ts-nopmt":
		// drop the first two packets (PAT, PMT)
		if len(body) > 2*188 {
			return body[2*188:]
		}
		return nil
	}
	return body
}

func fragWith(seq int, tracks []TrackDef, ids []int, units map[int][]Unit, post func(p *fmp4.Part)) ([]byte, error) {
	part := fmp4.Part{SequenceNumber: uint32(seq)}
	for ti, t := range tracks {
		us := units[ti]
		if len(us) == 0 {
			continue
		}
		pt := &fmp4.PartTrack{ID: ids[ti], BaseTime: uint64(us[0].DTS)}
		for _, u := range us {
			ps := &fmp4.PartSample{Duration: uint32(u.Dur), PTSOffset: u.Off}
			switch t.Codec {
			case "h264":
				if err := ps.FillH264(u.Off, videoAU(ti+1, u.ID, u.RA)); err != nil {
					return nil, err
				}
				ps.Duration = uint32(u.Dur)
			case "aac":
				ps.Payload = audioAU(ti+1, u.ID)
			default:
				ps.Payload = opusPacket(ti+1, u.ID)
			}
			pt.Samples = append(pt.Samples, ps)
		}
		part.Tracks = append(part.Tracks, pt)
	}
	if post != nil {
		post(&part)
	}
	var w seekablebuffer.Buffer
	if err := part.Marshal(&w); err != nil {
		return nil, err
	}
	return w.Bytes(), nil
}

// tsUnsupported builds a segment whose PMT lists an H265 track (not supported by the client in MPEG-TS), alone or next to the
// regular tracks.
func tsUnsupported(tracks []TrackDef, units map[int][]Unit, keep bool) []byte {
	var buf bytes.Buffer
	h265 := &mpegts.Track{Codec: &mpegts.CodecH265{}}
	mt := []*mpegts.Track{h265}
	var reg []*mpegts.Track
	if keep {
		for _, t := range tracks {
			switch t.Codec {
			case "h264":
				reg = append(reg, &mpegts.Track{Codec: &mpegts.CodecH264{}})
			default:
				reg = append(reg, nil)
			}
		}
		for _, t := range reg {
			if t != nil {
				mt = append(mt, t)
			}
		}
	}
	w := &mpegts.Writer{W: &buf, Tracks: mt}
	if err := w.Initialize(); err != nil {
		return garbage(188)
	}
	for ti := range tracks {
		for _, u := range units[ti] {
			if ti == 0 {
				w.WriteH265(h265, u.DTS, u.DTS, [][]byte{{0x40, 1, 2, 3}, {0x26, 1, 5, 6, 7}}) //nolint:errcheck
			}
			if keep && reg[ti] != nil {
				w.WriteH264(reg[ti], u.DTS+int64(u.Off), u.DTS, videoAU(ti+1, u.ID, u.RA)) //nolint:errcheck
			}
		}
	}
	return buf.Bytes()
}
