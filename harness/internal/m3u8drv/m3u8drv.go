// Package m3u8drv instantiates the abstract playlist values enumerated by TLC from spec/M3U8.tla with concrete
// legal field values, runs the REAL Marshal / Unmarshal / playlist.Unmarshal of pkg/playlist on them and logs the
// emitted lines as tokens (independent tokenizer) plus the field-by-field comparison (C14, C15). It also feeds the
// decoder token-level malformations and the repository's corpora (decoder totality, C15).
package m3u8drv

import (
	"encoding/json"
	"fmt"
	"math"
	"math/rand"
	"os"
	"path/filepath"
	"reflect"
	"sort"
	"strings"
	"time"

	"github.com/bluenviron/gohlslib/v2/pkg/playlist"

	"verif/harness/internal/m3u8"
	"verif/harness/internal/trace"
)

// ---- abstract values (shape of M3U8.tla) -----------------------------------------------------------

type aPart struct {
	Ind bool   `json:"ind"`
	Br  string `json:"br"`
	Gap bool   `json:"gap"`
}
type aSeg struct {
	Disc  bool    `json:"disc"`
	Gap   bool    `json:"gap"`
	Dt    bool    `json:"dt"`
	Rate  bool    `json:"rate"`
	Key   string  `json:"key"`
	Br    string  `json:"br"`
	Parts []aPart `json:"parts"`
	Title bool    `json:"title"`
}
type aSC struct{ On, C, P, S bool }
type aVar struct {
	Avg bool     `json:"avg"`
	Res bool     `json:"res"`
	Fps bool     `json:"fps"`
	Grp []string `json:"grp"`
}
type aRend struct {
	Type                                     string
	Lang, Name, Auto, Def, Forced, Chan, URI bool
	Instream                                 bool
}
type aValue struct {
	Kind    string                   `json:"kind"`
	Indep   bool                     `json:"indep"`
	Start   bool                     `json:"start"`
	Cache   string                   `json:"cache"`
	Sc      map[string]bool          `json:"sc"`
	Pinf    bool                     `json:"pinf"`
	Dseq    bool                     `json:"dseq"`
	Ptype   string                   `json:"ptype"`
	Map     string                   `json:"map"`
	Skip    bool                     `json:"skip"`
	Segs    []aSeg                   `json:"segs"`
	Parts   []aPart                  `json:"parts"`
	Hint    string                   `json:"hint"`
	Endlist bool                     `json:"endlist"`
	Vars    []aVar                   `json:"vars"`
	Rends   []map[string]interface{} `json:"rends"`
}

// ---- concrete instantiation -------------------------------------------------------------------------

type gen struct{ r *rand.Rand }

func (g gen) u64() uint64 {
	switch g.r.Intn(4) {
	case 0:
		return uint64(g.r.Intn(10))
	case 1:
		return uint64(g.r.Int63n(1 << 31))
	case 2:
		return math.MaxUint64 - uint64(g.r.Intn(3))
	}
	return uint64(g.r.Int63())
}
func (g gen) i31() int { return []int{1, 7, 1000, math.MaxInt32, g.r.Intn(1 << 30)}[g.r.Intn(5)] }

// durations on the 10 us grid, non-zero
func (g gen) dur() time.Duration {
	return time.Duration(1+g.r.Int63n(4000000)) * 10 * time.Microsecond
}
func (g gen) str(prefix string) string {
	alphabet := "abcXYZ09-_./:?&=%+~ ,;'()[]"
	n := 1 + g.r.Intn(12)
	b := []byte(prefix)
	for i := 0; i < n; i++ {
		b = append(b, alphabet[g.r.Intn(len(alphabet))])
	}
	return strings.TrimSpace(string(b)) + "x"
}
func (g gen) uri(prefix string) string {
	alphabet := "abcXYZ09-_./:?&=%+~"
	n := 1 + g.r.Intn(16)
	b := []byte(prefix)
	for i := 0; i < n; i++ {
		b = append(b, alphabet[g.r.Intn(len(alphabet))])
	}
	return string(b)
}
func (g gen) date() time.Time {
	zones := []*time.Location{time.UTC, time.FixedZone("", 2*3600), time.FixedZone("", -(5*3600 + 30*60)), time.FixedZone("", 0)}
	t := time.Date(1990+g.r.Intn(60), time.Month(1+g.r.Intn(12)), 1+g.r.Intn(28), g.r.Intn(24), g.r.Intn(60), g.r.Intn(60),
		g.r.Intn(1000)*1000000, zones[g.r.Intn(len(zones))])
	return t
}
func (g gen) br(class string) (*uint64, *uint64) {
	switch class {
	case "len":
		l := g.u64()
		return &l, nil
	case "lenstart":
		l, s := g.u64(), g.u64()
		return &l, &s
	}
	return nil, nil
}

func (g gen) part(a aPart) *playlist.MediaPart {
	p := &playlist.MediaPart{Duration: g.dur(), URI: g.uri("part"), Independent: a.Ind, Gap: a.Gap}
	p.ByteRangeLength, p.ByteRangeStart = g.br(a.Br)
	return p
}

func (g gen) key(class string, keys map[string]*playlist.MediaKey) *playlist.MediaKey {
	if class == "nil" {
		return nil
	}
	if k, ok := keys[class]; ok {
		return k
	}
	var k *playlist.MediaKey
	switch class {
	case "NONE":
		k = &playlist.MediaKey{Method: playlist.MediaKeyMethodNone}
	case "k1":
		k = &playlist.MediaKey{Method: playlist.MediaKeyMethodAES128, URI: g.uri("key")}
	case "k3": // the same key as k1 except for the IV
		k1 := g.key("k1", keys)
		k = &playlist.MediaKey{Method: k1.Method, URI: k1.URI, IV: fmt.Sprintf("0x%032x", g.r.Uint64())}
	default:
		k = &playlist.MediaKey{Method: playlist.MediaKeyMethodSampleAES, URI: g.uri("key"), IV: fmt.Sprintf("0x%032x", g.r.Uint64()),
			KeyFormat: g.str("kf"), KeyFormatVersions: "1/2/5"}
	}
	keys[class] = k
	return k
}

func (g gen) media(a aValue) *playlist.Media {
	m := &playlist.Media{Version: 1 + g.r.Intn(10), IndependentSegments: a.Indep, TargetDuration: g.i31(), MediaSequence: 7, Endlist: a.Endlist}
	if a.Start {
		d := g.dur()
		if g.r.Intn(2) == 0 {
			d = -d
		}
		m.Start = &playlist.MediaStart{TimeOffset: d}
	}
	if a.Cache != "no" {
		v := a.Cache == "YES"
		m.AllowCache = &v
	}
	if a.Sc["on"] {
		sc := &playlist.MediaServerControl{CanBlockReload: a.Sc["c"]}
		if a.Sc["p"] {
			d := g.dur()
			sc.PartHoldBack = &d
		}
		if a.Sc["s"] {
			d := g.dur()
			sc.CanSkipUntil = &d
		}
		m.ServerControl = sc
	}
	if a.Pinf {
		m.PartInf = &playlist.MediaPartInf{PartTarget: g.dur()}
	}
	if a.Dseq {
		v := 3 // different from MediaSequence
		m.DiscontinuitySequence = &v
	}
	if a.Ptype != "no" {
		v := playlist.MediaPlaylistType(a.Ptype)
		m.PlaylistType = &v
	}
	if a.Map != "no" {
		m.Map = &playlist.MediaMap{URI: g.uri("init")}
		m.Map.ByteRangeLength, m.Map.ByteRangeStart = g.br(a.Map)
	}
	if a.Skip {
		m.Skip = &playlist.MediaSkip{SkippedSegments: g.r.Intn(1000)}
	}
	keys := map[string]*playlist.MediaKey{}
	for _, s := range a.Segs {
		seg := &playlist.MediaSegment{Duration: g.dur(), URI: g.uri("seg"), Discontinuity: s.Disc, Gap: s.Gap, Key: g.key(s.Key, keys)}
		if s.Title {
			seg.Title = g.str("title")
		}
		if s.Dt {
			t := g.date()
			seg.DateTime = &t
		}
		if s.Rate {
			v := g.i31()
			seg.Bitrate = &v
		}
		seg.ByteRangeLength, seg.ByteRangeStart = g.br(s.Br)
		for _, p := range s.Parts {
			seg.Parts = append(seg.Parts, g.part(p))
		}
		m.Segments = append(m.Segments, seg)
	}
	for _, p := range a.Parts {
		m.Parts = append(m.Parts, g.part(p))
	}
	if a.Hint != "no" {
		h := &playlist.MediaPreloadHint{URI: g.uri("hint")}
		if a.Hint == "start" || a.Hint == "startlen" {
			h.ByteRangeStart = 1 + g.u64()%1000000
		}
		if a.Hint == "len" || a.Hint == "startlen" {
			l := g.u64()
			h.ByteRangeLength = &l
		}
		m.PreloadHint = h
	}
	return m
}

func has(ss []string, x string) bool {
	for _, s := range ss {
		if s == x {
			return true
		}
	}
	return false
}

func (g gen) mv(a aValue) *playlist.Multivariant {
	m := &playlist.Multivariant{Version: 1 + g.r.Intn(10), IndependentSegments: a.Indep}
	if a.Start {
		d := g.dur()
		if g.r.Intn(2) == 0 {
			d = -d
		}
		m.Start = &playlist.MultivariantStart{TimeOffset: d}
	}
	for _, v := range a.Vars {
		x := &playlist.MultivariantVariant{Bandwidth: g.i31(), Codecs: []string{"avc1.640028", "mp4a.40.2"}[:1+g.r.Intn(2)], URI: g.uri("var")}
		if v.Avg {
			b := g.i31()
			x.AverageBandwidth = &b
		}
		if v.Res {
			x.Resolution = fmt.Sprintf("%dx%d", 1+g.r.Intn(8000), 1+g.r.Intn(5000))
		}
		if v.Fps {
			f := float64(g.r.Intn(240000)) / 1000
			x.FrameRate = &f
		}
		if has(v.Grp, "VIDEO") {
			x.Video = g.str("v")
		}
		if has(v.Grp, "AUDIO") {
			x.Audio = g.str("a")
		}
		if has(v.Grp, "SUBTITLES") {
			x.Subtitles = g.str("s")
		}
		if has(v.Grp, "CLOSED-CAPTIONS") {
			x.ClosedCaptions = g.str("c")
		}
		m.Variants = append(m.Variants, x)
	}
	for _, r := range a.Rends {
		b := func(k string) bool { v, _ := r[k].(bool); return v }
		x := &playlist.MultivariantRendition{Type: playlist.MultivariantRenditionType(r["type"].(string)), GroupID: g.str("g"),
			Autoselect: b("auto"), Default: b("def"), Forced: b("forced")}
		if b("lang") {
			x.Language = g.str("l")
		}
		if b("name") {
			x.Name = g.str("n")
		}
		if b("chan") {
			c := "2"
			x.Channels = &c
		}
		if b("uri") {
			u := g.uri("rend")
			x.URI = &u
		}
		if b("instream") {
			i := "CC1"
			x.InStreamID = &i
		}
		m.Renditions = append(m.Renditions, x)
	}
	return m
}

// ---- projection of real output to tokens ---------------------------------------------------------------

// Tokens projects playlist text to the token records of M3U8.tla.
func Tokens(text string) []trace.M {
	out := []trace.M{}
	for _, ln := range m3u8.Tokenize(text) {
		switch ln.Kind {
		case "uri":
			out = append(out, trace.M{"t": "URI", "a": []string{}})
		case "tag":
			names, classes := []string{}, []string{}
			for _, a := range ln.Attrs {
				names = append(names, a.Name)
				classes = append(classes, a.Class)
			}
			tk := trace.M{"t": ln.Tag, "a": names, "c": classes, "aerr": b2i(ln.AttrErr != "")}
			if ln.Value != "" && ln.Attrs == nil && ln.AttrErr == "" {
				tk["v"] = m3u8.SimpleClass(ln.Tag, ln.Value)
			}
			out = append(out, tk)
		case "blank", "comment":
		}
	}
	return out
}

func b2i(b bool) int {
	if b {
		return 1
	}
	return 0
}

// ---- equality at the resolution of the text form ------------------------------------------------------------

func near(a, b time.Duration) bool {
	d := a - b
	if d < 0 {
		d = -d
	}
	return d <= 10*time.Microsecond
}

func eqValue(a, b reflect.Value) bool {
	if a.Type() != b.Type() {
		return false
	}
	switch a.Kind() {
	case reflect.Ptr, reflect.Interface:
		if a.IsNil() || b.IsNil() {
			return a.IsNil() == b.IsNil()
		}
		return eqValue(a.Elem(), b.Elem())
	case reflect.Struct:
		if a.Type() == reflect.TypeOf(time.Time{}) {
			ta, tb := a.Interface().(time.Time), b.Interface().(time.Time)
			d := ta.Sub(tb)
			if d < 0 {
				d = -d
			}
			return d < time.Millisecond
		}
		for i := 0; i < a.NumField(); i++ {
			if !eqValue(a.Field(i), b.Field(i)) {
				return false
			}
		}
		return true
	case reflect.Slice:
		if a.Len() != b.Len() {
			return false
		}
		for i := 0; i < a.Len(); i++ {
			if !eqValue(a.Index(i), b.Index(i)) {
				return false
			}
		}
		return true
	case reflect.Int64:
		if a.Type() == reflect.TypeOf(time.Duration(0)) {
			return near(time.Duration(a.Int()), time.Duration(b.Int()))
		}
		return a.Int() == b.Int()
	case reflect.Float64:
		return math.Abs(a.Float()-b.Float()) <= 0.0005
	default:
		return reflect.DeepEqual(a.Interface(), b.Interface())
	}
}

// diffFields names the top-level fields that differ (for the evidence / debugging).
func diffFields(a, b interface{}) []string {
	va, vb := reflect.ValueOf(a).Elem(), reflect.ValueOf(b).Elem()
	out := []string{}
	for i := 0; i < va.NumField(); i++ {
		if !eqValue(va.Field(i), vb.Field(i)) {
			out = append(out, va.Type().Field(i).Name)
		}
	}
	return out
}

// ---- syntactic variants ---------------------------------------------------------------------------------------

func variants(text string, rnd *rand.Rand) map[string]string {
	lines := strings.Split(strings.TrimSuffix(text, "\n"), "\n")
	v := map[string]string{}
	v["crlf"] = strings.Join(lines, "\r\n") + "\r\n"
	v["nonl"] = strings.Join(lines, "\n")
	// unknown tags and comments between lines (never between a tag and its URI line)
	var u []string
	for i, ln := range lines {
		u = append(u, ln)
		if i > 0 && !strings.HasPrefix(ln, "#EXTINF") && !strings.HasPrefix(ln, "#EXT-X-STREAM-INF") && !strings.HasPrefix(ln, "#EXT-X-BYTERANGE") {
			if rnd.Intn(3) == 0 {
				u = append(u, "#EXT-X-UNKNOWN-TAG:FOO=1,BAR=\"x,y\"", "# a comment")
			}
		}
	}
	v["unknown"] = strings.Join(u, "\n") + "\n"
	// attribute order reversed + an unknown attribute appended
	var o []string
	for _, ln := range lines {
		i := strings.IndexByte(ln, ':')
		if strings.HasPrefix(ln, "#EXT") && i > 0 {
			tag := ln[1:i]
			if attrs, aerr := m3u8.ParseAttrs(ln[i+1:]); aerr == "" && len(attrs) > 0 && isAttrTag(tag) {
				parts := []string{}
				for j := len(attrs) - 1; j >= 0; j-- {
					parts = append(parts, attrs[j].Name+"="+attrs[j].Raw)
				}
				parts = append(parts, "X-UNKNOWN=\"u\"")
				o = append(o, ln[:i+1]+strings.Join(parts, ","))
				continue
			}
		}
		o = append(o, ln)
	}
	v["order"] = strings.Join(o, "\n") + "\n"
	return v
}

func isAttrTag(tag string) bool {
	switch tag {
	case "EXT-X-SERVER-CONTROL", "EXT-X-PART-INF", "EXT-X-MAP", "EXT-X-SKIP", "EXT-X-PART", "EXT-X-PRELOAD-HINT", "EXT-X-KEY",
		"EXT-X-STREAM-INF", "EXT-X-MEDIA", "EXT-X-START":
		return true
	}
	return false
}

// ---- one case --------------------------------------------------------------------------------------------------------

func safe(f func()) (panicked bool, msg string) {
	defer func() {
		if e := recover(); e != nil {
			panicked, msg = true, fmt.Sprint(e)
		}
	}()
	f()
	return
}

func runCase(w *trace.W, raw json.RawMessage, a aValue, g gen) {
	ev := trace.M{"ev": "case", "p": raw, "merr": 0, "uerr": 0, "eq": 0, "fix": 0, "kind": 0, "panic": 0, "tokens": []trace.M{}}
	var orig playlist.Playlist
	if a.Kind == "media" {
		orig = g.media(a)
	} else {
		orig = g.mv(a)
	}
	var text []byte
	var err error
	if p, msg := safe(func() { text, err = orig.Marshal() }); p {
		ev["panic"], ev["msg"] = 1, msg
		w.Emit(ev)
		return
	}
	if err != nil {
		ev["merr"] = 1
		w.Emit(ev)
		return
	}
	ev["tokens"] = Tokens(string(text))
	var back playlist.Playlist
	if a.Kind == "media" {
		back = &playlist.Media{}
	} else {
		back = &playlist.Multivariant{}
	}
	if p, msg := safe(func() { err = back.Unmarshal(text) }); p {
		ev["panic"], ev["msg"] = 1, msg
		w.Emit(ev)
		return
	}
	if err != nil {
		ev["uerr"], ev["msg"] = 1, err.Error()
		w.Emit(ev)
		return
	}
	d := diffFields(orig, back)
	ev["eq"] = b2i(len(d) == 0)
	if len(d) > 0 {
		sort.Strings(d)
		ev["diff"] = d
	}
	text2, err2 := back.Marshal()
	ev["fix"] = b2i(err2 == nil && string(text2) == string(text))
	// playlist.Unmarshal picks the right kind
	if any, err3 := playlist.Unmarshal(text); err3 == nil {
		ev["kind"] = b2i(reflect.TypeOf(any) == reflect.TypeOf(orig))
	}
	// syntactic variants decode to the same value
	vs := []trace.M{}
	vt := variants(string(text), g.r)
	names := []string{}
	for k := range vt {
		names = append(names, k)
	}
	sort.Strings(names)
	for _, k := range names {
		var alt playlist.Playlist
		if a.Kind == "media" {
			alt = &playlist.Media{}
		} else {
			alt = &playlist.Multivariant{}
		}
		same := 0
		if p, _ := safe(func() { err = alt.Unmarshal([]byte(vt[k])) }); !p && err == nil {
			same = b2i(len(diffFields(back, alt)) == 0)
		}
		vs = append(vs, trace.M{"k": k, "same": same})
	}
	ev["variants"] = vs
	w.Emit(ev)
}

// RunValues instantiates every abstract value `inst` times.
func RunValues(valuesPath, outPath string, inst int, seed int64) (int, error) {
	b, err := os.ReadFile(valuesPath)
	if err != nil {
		return 0, err
	}
	var raws []json.RawMessage
	if err := json.Unmarshal(b, &raws); err != nil {
		return 0, err
	}
	w, err := trace.Create(outPath)
	if err != nil {
		return 0, err
	}
	g := gen{r: rand.New(rand.NewSource(seed))}
	w.Emit(trace.M{"ev": "reset"})
	n := 0
	for _, raw := range raws {
		var a aValue
		if err := json.Unmarshal(raw, &a); err != nil {
			return n, err
		}
		for i := 0; i < inst; i++ {
			runCase(w, raw, a, g)
			n++
		}
	}
	w.Emit(trace.M{"ev": "end"})
	return n, w.Close()
}

// ---- decoder totality ------------------------------------------------------------------------------------------------------------

func postMedia(m *playlist.Media) bool {
	if len(m.Segments) == 0 || m.TargetDuration == 0 {
		return false
	}
	for _, s := range m.Segments {
		if s.URI == "" || s.Duration == 0 {
			return false
		}
		for _, p := range s.Parts {
			if p.URI == "" || p.Duration == 0 {
				return false
			}
		}
	}
	for _, p := range m.Parts {
		if p.URI == "" || p.Duration == 0 {
			return false
		}
	}
	if m.Map != nil && m.Map.URI == "" {
		return false
	}
	if m.PreloadHint != nil && m.PreloadHint.URI == "" {
		return false
	}
	if m.PartInf != nil && m.PartInf.PartTarget == 0 {
		return false
	}
	return true
}

func postMV(m *playlist.Multivariant) bool {
	if len(m.Variants) == 0 {
		return false
	}
	for _, v := range m.Variants {
		if v.URI == "" {
			return false
		}
	}
	for _, r := range m.Renditions {
		switch r.Type {
		case playlist.MultivariantRenditionTypeAudio, playlist.MultivariantRenditionTypeVideo,
			playlist.MultivariantRenditionTypeSubtitles, playlist.MultivariantRenditionTypeClosedCaptions:
		default:
			return false
		}
		if r.GroupID == "" {
			return false
		}
	}
	return true
}

func decodeOne(w *trace.W, src string, input []byte) {
	ev := trace.M{"ev": "dec", "src": src, "panic": 0, "ok": 0, "post": 1, "remarshal": 1, "len": len(input)}
	var pl playlist.Playlist
	var err error
	done := make(chan struct{})
	go func() {
		defer close(done)
		if p, msg := safe(func() { pl, err = playlist.Unmarshal(input) }); p {
			ev["panic"], ev["msg"] = 1, msg
		}
	}()
	select {
	case <-done:
	case <-time.After(5 * time.Second):
		ev["hang"] = 1
		w.Emit(ev)
		return
	}
	ev["hang"] = 0
	if ev["panic"] == 1 {
		w.Emit(ev)
		return
	}
	// the typed decoders must be total as well
	for _, typed := range []playlist.Playlist{&playlist.Media{}, &playlist.Multivariant{}} {
		t := typed
		if p, msg := safe(func() { t.Unmarshal(input) }); p { //nolint:errcheck
			ev["panic"], ev["msg"] = 1, msg
			w.Emit(ev)
			return
		}
	}
	if err == nil && pl != nil {
		ev["ok"] = 1
		switch t := pl.(type) {
		case *playlist.Media:
			ev["post"] = b2i(postMedia(t))
		case *playlist.Multivariant:
			ev["post"] = b2i(postMV(t))
		}
		var out []byte
		var merr error
		if p, _ := safe(func() { out, merr = pl.Marshal() }); p || merr != nil || len(out) == 0 {
			ev["remarshal"] = 0
		}
	}
	w.Emit(ev)
}

// mutations of a valid playlist text at token level
func mutations(text string, rnd *rand.Rand, n int) []string {
	lines := strings.Split(strings.TrimSuffix(text, "\n"), "\n")
	out := []string{}
	join := func(ls []string) string { return strings.Join(ls, "\n") + "\n" }
	for k := 0; k < n; k++ {
		ls := append([]string(nil), lines...)
		i := rnd.Intn(len(ls))
		switch rnd.Intn(15) {
		case 12, 13, 14: // structural zeroes: exactly what the postconditions of a successful decode exclude
			zero := [][2]string{{"DURATION=", "0"}, {"DURATION=", "0.00000"}, {"DURATION=", "0.0000000001"}, {"PART-TARGET=", "0"},
				{"#EXTINF:", "0"}, {"#EXTINF:", "0.000001"}, {"#EXT-X-TARGETDURATION:", "0"}, {"URI=", "\"\""}, {"GROUP-ID=", "\"\""},
				{"TYPE=", "WEIRD"}, {"BANDWIDTH=", "0"}, {"TIME-OFFSET=", "0"}}
			z := zero[rnd.Intn(len(zero))]
			for tries := 0; tries < len(ls); tries++ {
				j := (i + tries) % len(ls)
				if x := strings.Index(ls[j], z[0]); x >= 0 {
					rest := ls[j][x+len(z[0]):]
					end := strings.IndexAny(rest, ",")
					if strings.HasPrefix(rest, "\"") {
						if q := strings.IndexByte(rest[1:], '"'); q >= 0 {
							end = q + 2
						}
					}
					tail := ""
					if end >= 0 && end <= len(rest) {
						tail = rest[end:]
					}
					ls[j] = ls[j][:x+len(z[0])] + z[1] + tail
					break
				}
			}
		case 0: // delete a line
			ls = append(ls[:i], ls[i+1:]...)
		case 1: // duplicate a line
			ls = append(ls[:i+1], ls[i:]...)
		case 2: // swap with the next
			if i+1 < len(ls) {
				ls[i], ls[i+1] = ls[i+1], ls[i]
			}
		case 3: // truncate a line
			if len(ls[i]) > 0 {
				ls[i] = ls[i][:rnd.Intn(len(ls[i]))]
			}
		case 4: // truncate the file
			ls = ls[:i]
		case 5: // drop the value after ':'
			if j := strings.IndexByte(ls[i], ':'); j > 0 {
				ls[i] = ls[i][:j+1]
			}
		case 6: // drop one attribute
			if j := strings.IndexByte(ls[i], ':'); j > 0 {
				if attrs, e := m3u8.ParseAttrs(ls[i][j+1:]); e == "" && len(attrs) > 0 {
					d := rnd.Intn(len(attrs))
					parts := []string{}
					for x, a := range attrs {
						if x != d {
							parts = append(parts, a.Name+"="+a.Raw)
						}
					}
					ls[i] = ls[i][:j+1] + strings.Join(parts, ",")
				}
			}
		case 7: // wrong lexical class for one attribute value
			if j := strings.IndexByte(ls[i], ':'); j > 0 {
				if attrs, e := m3u8.ParseAttrs(ls[i][j+1:]); e == "" && len(attrs) > 0 {
					d := rnd.Intn(len(attrs))
					parts := []string{}
					for x, a := range attrs {
						raw := a.Raw
						if x == d {
							raw = []string{"0", "0.0", "-1", "\"\"", "abc", "1e400", "NaN", "0x", "99999999999999999999999", ""}[rnd.Intn(10)]
						}
						parts = append(parts, a.Name+"="+raw)
					}
					ls[i] = ls[i][:j+1] + strings.Join(parts, ",")
				}
			}
		case 8: // simple tag value replaced
			if j := strings.IndexByte(ls[i], ':'); j > 0 {
				ls[i] = ls[i][:j+1] + []string{"0", "-1", "", "abc", "1,", ",", "99999999999999999999", "0.0,", "1e999,x"}[rnd.Intn(9)]
			}
		case 9: // unterminated quote
			ls[i] = ls[i] + ",X=\"unterminated"
		case 10: // garbage line
			ls[i] = string([]byte{0xff, 0xfe, 0, '#', 'E', 'X', 'T'})
		case 11: // header removed / empty
			if rnd.Intn(2) == 0 {
				ls = ls[1:]
			} else {
				ls = nil
			}
		}
		s := join(ls)
		if rnd.Intn(5) == 0 {
			s = strings.TrimSuffix(s, "\n")
		}
		out = append(out, s)
	}
	return out
}

// structural returns the malformations that are applied to EVERY value (not sampled): each URI line replaced by a line of
// white space only / an empty line, each quoted URI attribute emptied or blanked.
func structural(text string) []string {
	lines := strings.Split(strings.TrimSuffix(text, "\n"), "\n")
	var out []string
	for i, ln := range lines {
		if ln != "" && !strings.HasPrefix(ln, "#") {
			for _, rep := range []string{" ", "\t", "\t\r", "", "  \r"} {
				ls := append([]string(nil), lines...)
				ls[i] = rep
				out = append(out, strings.Join(ls, "\n")+"\n")
				if i == len(lines)-1 {
					out = append(out, strings.Join(ls, "\n")) // no final newline
				}
			}
		}
		if x := strings.Index(ln, "URI=\""); x >= 0 && strings.HasPrefix(ln, "#") {
			if q := strings.IndexByte(ln[x+5:], '"'); q >= 0 {
				for _, rep := range []string{"", " "} {
					ls := append([]string(nil), lines...)
					ls[i] = ln[:x+5] + rep + ln[x+5+q:]
					out = append(out, strings.Join(ls, "\n")+"\n")
				}
			}
		}
	}
	return out
}

// RunDecoder feeds the decoder: mutations of valid playlists (from the abstract values), the repository's test
// data and fuzz corpora.
func RunDecoder(valuesPath, repoDir, outPath string, perValue int, seed int64) (int, error) {
	b, err := os.ReadFile(valuesPath)
	if err != nil {
		return 0, err
	}
	var raws []json.RawMessage
	if err := json.Unmarshal(b, &raws); err != nil {
		return 0, err
	}
	w, err := trace.Create(outPath)
	if err != nil {
		return 0, err
	}
	g := gen{r: rand.New(rand.NewSource(seed))}
	w.Emit(trace.M{"ev": "reset"})
	n := 0
	for _, raw := range raws {
		var a aValue
		if err := json.Unmarshal(raw, &a); err != nil {
			return n, err
		}
		var orig playlist.Playlist
		if a.Kind == "media" {
			orig = g.media(a)
		} else {
			orig = g.mv(a)
		}
		text, err := orig.Marshal()
		if err != nil {
			continue
		}
		for _, m := range mutations(string(text), g.r, perValue) {
			decodeOne(w, "mut", []byte(m))
			n++
		}
		for _, m := range structural(string(text)) {
			decodeOne(w, "mut", []byte(m))
			n++
		}
	}
	// corpora
	filepath.Walk(filepath.Join(repoDir, "pkg", "playlist", "testdata"), func(path string, info os.FileInfo, err error) error { //nolint:errcheck
		if err != nil || info.IsDir() {
			return nil
		}
		data, err := os.ReadFile(path)
		if err != nil {
			return nil
		}
		inputs := [][]byte{data}
		// go fuzz corpus files: `go test fuzz v1\n[]byte("...")`
		if strings.HasPrefix(string(data), "go test fuzz v1") {
			inputs = nil
			for _, ln := range strings.Split(string(data), "\n")[1:] {
				ln = strings.TrimSpace(ln)
				if strings.HasPrefix(ln, "[]byte(") && strings.HasSuffix(ln, ")") {
					var s string
					if _, err := fmt.Sscanf(ln[len("[]byte("):len(ln)-1], "%q", &s); err == nil {
						inputs = append(inputs, []byte(s))
					}
				}
			}
		}
		for _, in := range inputs {
			decodeOne(w, "corpus", in)
			n++
			for _, m := range mutations(string(in), g.r, 2) {
				decodeOne(w, "corpusmut", []byte(m))
				n++
			}
		}
		return nil
	})
	w.Emit(trace.M{"ev": "end"})
	return n, w.Close()
}
