// Package m3u8 is an independent, strict tokenizer / reader for M3U8 playlists. It does NOT use
// gohlslib's pkg/playlist: it is the projection from playlist text to the abstract records the TLA+
// specifications talk about, and the grammar monitor input for C15.
package m3u8

import (
	"fmt"
	"strconv"
	"strings"
	"time"
)

// Attr is one attribute of an attribute list, with its lexical class.
type Attr struct {
	Name  string
	Raw   string // raw value text
	Class string // "int" | "float" | "quoted" | "enum" | "hex" | "res" | "bad"
}

// Line is one token of the playlist.
type Line struct {
	Kind  string // "tag" | "uri" | "comment" | "blank"
	Tag   string // e.g. EXT-X-PART (without '#')
	Value string // text after ':' for tags; the URI for uri lines
	Attrs []Attr // when the tag carries an attribute list
	// AttrErr describes an attribute list syntax error ("" if none)
	AttrErr string
}

var attrListTags = map[string]bool{
	"EXT-X-SERVER-CONTROL": true, "EXT-X-PART-INF": true, "EXT-X-MAP": true, "EXT-X-SKIP": true,
	"EXT-X-PART": true, "EXT-X-PRELOAD-HINT": true, "EXT-X-KEY": true, "EXT-X-STREAM-INF": true,
	"EXT-X-MEDIA": true, "EXT-X-START": true, "EXT-X-I-FRAME-STREAM-INF": true, "EXT-X-SESSION-DATA": true,
	"EXT-X-SESSION-KEY": true, "EXT-X-RENDITION-REPORT": true, "EXT-X-DATERANGE": true, "EXT-X-DEFINE": true,
	"EXT-X-CONTENT-STEERING": true,
}

// Classify returns the lexical class of an attribute value.
func Classify(v string) string { return classify(v) }

func classify(v string) string {
	if v == "" {
		return "bad"
	}
	if v[0] == '"' {
		if len(v) >= 2 && v[len(v)-1] == '"' && !strings.ContainsAny(v[1:len(v)-1], "\"\r\n") {
			return "quoted"
		}
		return "bad"
	}
	if strings.HasPrefix(v, "0x") || strings.HasPrefix(v, "0X") {
		h := v[2:]
		if h == "" {
			return "bad"
		}
		for _, c := range h {
			if !strings.ContainsRune("0123456789abcdefABCDEF", c) {
				return "bad"
			}
		}
		return "hex"
	}
	isDigits := func(s string) bool {
		if s == "" {
			return false
		}
		for _, c := range s {
			if c < '0' || c > '9' {
				return false
			}
		}
		return true
	}
	if isDigits(v) {
		return "int"
	}
	if i := strings.IndexByte(v, 'x'); i > 0 && isDigits(v[:i]) && isDigits(v[i+1:]) {
		return "res"
	}
	s := v
	if s[0] == '-' {
		s = s[1:]
	}
	if i := strings.IndexByte(s, '.'); i >= 0 {
		if (isDigits(s[:i]) || s[:i] == "") && isDigits(s[i+1:]) {
			return "float"
		}
		return "bad"
	}
	if isDigits(s) {
		return "float" // signed integer: only legal where a signed float is
	}
	for _, c := range v {
		if c == '"' || c == ',' || c == ' ' || c == '=' {
			return "bad"
		}
	}
	return "enum"
}

// ParseAttrs splits an attribute list strictly: NAME=VALUE separated by single commas, no leading or
// trailing comma, names of [A-Z0-9-], quoted strings may contain commas.
func ParseAttrs(s string) ([]Attr, string) {
	var out []Attr
	if s == "" {
		return nil, "empty attribute list"
	}
	i := 0
	for {
		j := i
		for j < len(s) && s[j] != '=' && s[j] != ',' {
			j++
		}
		if j >= len(s) || s[j] != '=' {
			return out, fmt.Sprintf("attribute without '=' at %d", i)
		}
		name := s[i:j]
		if name == "" {
			return out, fmt.Sprintf("empty attribute name at %d", i)
		}
		for _, c := range name {
			if !(c >= 'A' && c <= 'Z') && !(c >= '0' && c <= '9') && c != '-' {
				return out, "illegal character in attribute name " + name
			}
		}
		j++
		k := j
		if k < len(s) && s[k] == '"' {
			k++
			for k < len(s) && s[k] != '"' {
				k++
			}
			if k >= len(s) {
				return out, "unterminated quoted string in " + name
			}
			k++
		} else {
			for k < len(s) && s[k] != ',' {
				k++
			}
		}
		val := s[j:k]
		out = append(out, Attr{Name: name, Raw: val, Class: classify(val)})
		if k >= len(s) {
			return out, ""
		}
		if s[k] != ',' {
			return out, "garbage after value of " + name
		}
		i = k + 1
		if i >= len(s) {
			return out, "trailing comma"
		}
	}
}

// Tokenize splits a playlist into lines. It accepts LF and CRLF.
func Tokenize(text string) []Line {
	var out []Line
	text = strings.TrimSuffix(text, "\n")
	for _, raw := range strings.Split(text, "\n") {
		raw = strings.TrimSuffix(raw, "\r")
		switch {
		case raw == "":
			out = append(out, Line{Kind: "blank"})
		case strings.HasPrefix(raw, "#EXT"):
			body := raw[1:]
			tag, val := body, ""
			if i := strings.IndexByte(body, ':'); i >= 0 {
				tag, val = body[:i], body[i+1:]
			}
			ln := Line{Kind: "tag", Tag: tag, Value: val}
			if attrListTags[tag] {
				ln.Attrs, ln.AttrErr = ParseAttrs(val)
			}
			out = append(out, ln)
		case strings.HasPrefix(raw, "#"):
			out = append(out, Line{Kind: "comment", Value: raw})
		default:
			out = append(out, Line{Kind: "uri", Value: raw})
		}
	}
	return out
}

// Get returns the attribute with the given name.
func (l Line) Get(name string) (Attr, bool) {
	for _, a := range l.Attrs {
		if a.Name == name {
			return a, true
		}
	}
	return Attr{}, false
}

// Unquote strips the quotes of a quoted-string value.
func Unquote(v string) string {
	if len(v) >= 2 && v[0] == '"' && v[len(v)-1] == '"' {
		return v[1 : len(v)-1]
	}
	return v
}

// Part is an EXT-X-PART.
type Part struct {
	URI     string
	DurText string
	Dur     float64
	Indep   bool
	Gap     bool
}

// Segment is a media segment entry.
type Segment struct {
	URI      string
	DurText  string
	Dur      float64
	Title    string
	Gap      bool
	DateTime string // raw, "" if absent
	Disc     bool
	Parts    []Part
}

// Media is the abstract content of a media playlist as read by this package.
type Media struct {
	Version       int
	TargetDur     int
	HasTargetDur  bool
	MediaSeq      int
	AllowCache    string
	PartTarget    float64
	PartTargetTxt string
	HasPartInf    bool
	CanBlock      bool
	HoldBack      float64
	HasHoldBack   bool
	SkipUntil     float64
	HasSkipUntil  bool
	HasServerCtl  bool
	MapURI        string
	HasMap        bool
	Skipped       int
	HasSkip       bool
	Segments      []Segment
	Parts         []Part // trailing parts (open segment)
	HintURI       string
	HasHint       bool
	HintType      string
	Endlist       bool
	IndepSegments bool
}

// ReadMedia reads a media playlist. It fails on anything it does not understand about structure.
func ReadMedia(text string) (*Media, error) {
	lines := Tokenize(text)
	if len(lines) == 0 || lines[0].Kind != "tag" || lines[0].Tag != "EXTM3U" {
		return nil, fmt.Errorf("missing #EXTM3U")
	}
	m := &Media{}
	var cur Segment
	var pending []Part
	haveInf := false
	for _, ln := range lines[1:] {
		switch ln.Kind {
		case "blank", "comment":
			continue
		case "uri":
			if !haveInf {
				return nil, fmt.Errorf("URI line %q without EXTINF", ln.Value)
			}
			cur.URI = ln.Value
			cur.Parts = pending
			pending = nil
			m.Segments = append(m.Segments, cur)
			cur = Segment{}
			haveInf = false
			continue
		}
		if ln.AttrErr != "" {
			return nil, fmt.Errorf("%s: %s", ln.Tag, ln.AttrErr)
		}
		switch ln.Tag {
		case "EXT-X-VERSION":
			v, err := strconv.Atoi(ln.Value)
			if err != nil {
				return nil, err
			}
			m.Version = v
		case "EXT-X-INDEPENDENT-SEGMENTS":
			m.IndepSegments = true
		case "EXT-X-ALLOW-CACHE":
			m.AllowCache = ln.Value
		case "EXT-X-TARGETDURATION":
			v, err := strconv.Atoi(ln.Value)
			if err != nil {
				return nil, err
			}
			m.TargetDur, m.HasTargetDur = v, true
		case "EXT-X-MEDIA-SEQUENCE":
			v, err := strconv.Atoi(ln.Value)
			if err != nil {
				return nil, err
			}
			m.MediaSeq = v
		case "EXT-X-SERVER-CONTROL":
			m.HasServerCtl = true
			if a, ok := ln.Get("CAN-BLOCK-RELOAD"); ok {
				m.CanBlock = a.Raw == "YES"
			}
			if a, ok := ln.Get("PART-HOLD-BACK"); ok {
				f, err := strconv.ParseFloat(a.Raw, 64)
				if err != nil {
					return nil, err
				}
				m.HoldBack, m.HasHoldBack = f, true
			}
			if a, ok := ln.Get("CAN-SKIP-UNTIL"); ok {
				f, err := strconv.ParseFloat(a.Raw, 64)
				if err != nil {
					return nil, err
				}
				m.SkipUntil, m.HasSkipUntil = f, true
			}
		case "EXT-X-PART-INF":
			a, ok := ln.Get("PART-TARGET")
			if !ok {
				return nil, fmt.Errorf("PART-INF without PART-TARGET")
			}
			f, err := strconv.ParseFloat(a.Raw, 64)
			if err != nil {
				return nil, err
			}
			m.PartTarget, m.PartTargetTxt, m.HasPartInf = f, a.Raw, true
		case "EXT-X-MAP":
			a, ok := ln.Get("URI")
			if !ok {
				return nil, fmt.Errorf("MAP without URI")
			}
			m.MapURI, m.HasMap = Unquote(a.Raw), true
		case "EXT-X-SKIP":
			a, ok := ln.Get("SKIPPED-SEGMENTS")
			if !ok {
				return nil, fmt.Errorf("SKIP without SKIPPED-SEGMENTS")
			}
			v, err := strconv.Atoi(a.Raw)
			if err != nil {
				return nil, err
			}
			m.Skipped, m.HasSkip = v, true
		case "EXT-X-GAP":
			cur.Gap = true
		case "EXT-X-DISCONTINUITY":
			cur.Disc = true
		case "EXT-X-PROGRAM-DATE-TIME":
			cur.DateTime = ln.Value
		case "EXT-X-PART":
			var p Part
			a, ok := ln.Get("URI")
			if !ok {
				return nil, fmt.Errorf("PART without URI")
			}
			p.URI = Unquote(a.Raw)
			d, ok := ln.Get("DURATION")
			if !ok {
				return nil, fmt.Errorf("PART without DURATION")
			}
			f, err := strconv.ParseFloat(d.Raw, 64)
			if err != nil {
				return nil, err
			}
			p.Dur, p.DurText = f, d.Raw
			if a, ok := ln.Get("INDEPENDENT"); ok {
				p.Indep = a.Raw == "YES"
			}
			if a, ok := ln.Get("GAP"); ok {
				p.Gap = a.Raw == "YES"
			}
			pending = append(pending, p)
		case "EXTINF":
			i := strings.IndexByte(ln.Value, ',')
			if i < 0 {
				return nil, fmt.Errorf("EXTINF without comma")
			}
			f, err := strconv.ParseFloat(ln.Value[:i], 64)
			if err != nil {
				return nil, err
			}
			cur.Dur, cur.DurText, cur.Title = f, ln.Value[:i], ln.Value[i+1:]
			haveInf = true
		case "EXT-X-PRELOAD-HINT":
			a, ok := ln.Get("URI")
			if !ok {
				return nil, fmt.Errorf("PRELOAD-HINT without URI")
			}
			m.HintURI, m.HasHint = Unquote(a.Raw), true
			if t, ok := ln.Get("TYPE"); ok {
				m.HintType = t.Raw
			}
		case "EXT-X-ENDLIST":
			m.Endlist = true
		default:
			return nil, fmt.Errorf("unexpected tag %s", ln.Tag)
		}
	}
	if haveInf {
		return nil, fmt.Errorf("EXTINF without URI")
	}
	m.Parts = pending
	return m, nil
}

// SimpleClass returns the lexical class of the value of a tag that carries a single value.
func SimpleClass(tag, v string) string {
	switch tag {
	case "EXT-X-PROGRAM-DATE-TIME":
		if _, err := time.Parse("2006-01-02T15:04:05.999Z07:00", v); err == nil {
			return "date"
		}
		return "bad"
	case "EXTINF":
		i := strings.IndexByte(v, ',')
		if i < 0 {
			return "bad"
		}
		return classify(v[:i])
	case "EXT-X-BYTERANGE":
		if i := strings.IndexByte(v, '@'); i >= 0 {
			if classify(v[:i]) == "int" && classify(v[i+1:]) == "int" {
				return "range"
			}
			return "bad"
		}
	}
	return classify(v)
}
