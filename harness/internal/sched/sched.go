// Package sched is a tiny deterministic scheduler for goroutine schedule replay.
//
// Goroutines under test ("procs") execute operations handed to them one at a time. Inside the
// library, build-tag guarded hook points (verifPoint) call Hook; a proc that reaches a point it is
// gated on blocks there until Release. After every scheduler command the harness waits for
// quiescence: every proc is idle (its operation returned), parked at a gate, or blocked inside the
// library (the Go runtime reports the goroutine as waiting: select, sync.Cond.Wait, chan receive ...).
// The wait reason is read from runtime.Stack, so no sleeps or timing guesses are involved.
package sched

import (
	"bytes"
	"fmt"
	"runtime"
	"strconv"
	"sync"
	"sync/atomic"
	"time"
)

// Status of a proc at a quiescent point.
type Status struct {
	St     string // idle | gate | blocked
	At     string // gate name when St == gate
	Reason string // runtime wait reason when St == blocked
}

// Proc is one goroutine under test.
type Proc struct {
	Name  string
	s     *Sched
	gid   int64
	cmds  chan func()
	busy  atomic.Bool
	at    atomic.Value // string
	gate  chan struct{}
	gates map[string]bool
	mu    sync.Mutex
	quit  chan struct{}

	stopOnce sync.Once
}

// Sched owns the procs.
type Sched struct {
	mu    sync.Mutex
	procs map[int64]*Proc
	list  []*Proc
	// Events observed at non-gating points (name + args), appended under mu.
	Events []string
}

// New allocates a scheduler.
func New() *Sched {
	return &Sched{procs: map[int64]*Proc{}}
}

func curGID() int64 {
	var buf [64]byte
	n := runtime.Stack(buf[:], false)
	// "goroutine 123 [running]:"
	b := buf[:n]
	b = b[len("goroutine "):]
	i := bytes.IndexByte(b, ' ')
	id, _ := strconv.ParseInt(string(b[:i]), 10, 64)
	return id
}

// Spawn starts a proc; gates lists the hook points at which it stops.
func (s *Sched) Spawn(name string, gates ...string) *Proc {
	p := &Proc{Name: name, s: s, cmds: make(chan func()), gate: make(chan struct{}), gates: map[string]bool{}, quit: make(chan struct{})}
	for _, g := range gates {
		p.gates[g] = true
	}
	p.at.Store("")
	ready := make(chan struct{})
	go func() {
		p.gid = curGID()
		s.mu.Lock()
		s.procs[p.gid] = p
		s.list = append(s.list, p)
		s.mu.Unlock()
		close(ready)
		for {
			select {
			case f := <-p.cmds:
				f()
				p.busy.Store(false)
			case <-p.quit:
				return
			}
		}
	}()
	<-ready
	return p
}

// Hook must be installed as the library's verif hook.
func (s *Sched) Hook(name string, args ...int64) {
	gid := curGID()
	s.mu.Lock()
	p := s.procs[gid]
	s.mu.Unlock()
	if p == nil {
		return
	}
	p.mu.Lock()
	gated := p.gates[name]
	p.mu.Unlock()
	if !gated {
		return
	}
	p.at.Store(name)
	<-p.gate
}

// SetGate enables / disables a gate for the proc.
func (p *Proc) SetGate(name string, on bool) {
	p.mu.Lock()
	p.gates[name] = on
	p.mu.Unlock()
}

// Start hands an operation to an idle proc.
func (p *Proc) Start(f func()) error {
	if p.busy.Load() {
		return fmt.Errorf("proc %s is busy", p.Name)
	}
	p.busy.Store(true)
	p.cmds <- f
	return nil
}

// AtGate returns the gate the proc is parked at ("" if none).
func (p *Proc) AtGate() string {
	return p.at.Load().(string)
}

// Busy reports whether an operation is in progress.
func (p *Proc) Busy() bool { return p.busy.Load() }

// Release lets a gated proc continue.
func (p *Proc) Release() error {
	if p.AtGate() == "" {
		return fmt.Errorf("proc %s is not at a gate", p.Name)
	}
	p.at.Store("")
	p.gate <- struct{}{}
	return nil
}

// StopAll terminates the goroutines of all procs that are idle (procs still inside an operation are left).
func (s *Sched) StopAll() int {
	s.mu.Lock()
	list := append([]*Proc(nil), s.list...)
	s.mu.Unlock()
	left := 0
	for _, p := range list {
		if p.Busy() {
			left++
			continue
		}
		p.stopOnce.Do(func() { close(p.quit) })
	}
	return left
}

// Stop terminates an idle proc's goroutine.
func (p *Proc) Stop() {
	p.stopOnce.Do(func() { close(p.quit) })
}

var blockedReasons = map[string]bool{
	"select": true, "chan receive": true, "chan send": true, "sync.Cond.Wait": true,
	"sync.Mutex.Lock": true, "semacquire": true, "sync.RWMutex.RLock": true, "sync.RWMutex.Lock": true,
	"sync.WaitGroup.Wait": true, "select (no cases)": true, "chan receive (nil chan)": true,
}

// reasons returns gid -> wait reason for all goroutines.
func reasons() map[int64]string {
	buf := make([]byte, 1<<16)
	for {
		n := runtime.Stack(buf, true)
		if n < len(buf) {
			buf = buf[:n]
			break
		}
		buf = make([]byte, 2*len(buf))
	}
	res := map[int64]string{}
	for _, blk := range bytes.Split(buf, []byte("\n\n")) {
		if !bytes.HasPrefix(blk, []byte("goroutine ")) {
			continue
		}
		line := blk
		if i := bytes.IndexByte(blk, '\n'); i >= 0 {
			line = blk[:i]
		}
		rest := line[len("goroutine "):]
		sp := bytes.IndexByte(rest, ' ')
		if sp < 0 {
			continue
		}
		id, err := strconv.ParseInt(string(rest[:sp]), 10, 64)
		if err != nil {
			continue
		}
		a := bytes.IndexByte(rest, '[')
		b := bytes.IndexByte(rest, ']')
		if a < 0 || b < a {
			continue
		}
		st := string(rest[a+1 : b])
		// strip ", 2 minutes" / ", locked to thread"
		if c := bytes.IndexByte([]byte(st), ','); c >= 0 {
			st = st[:c]
		}
		res[id] = st
	}
	return res
}

// Quiesce waits until every proc is idle, gated or blocked and returns their statuses.
// ok is false when the deadline passes first (some proc is still running).
func (s *Sched) Quiesce(timeout time.Duration) (map[string]Status, bool) {
	deadline := time.Now().Add(timeout)
	spins := 0
	var last map[string]Status
	var since time.Time
	for {
		s.mu.Lock()
		list := append([]*Proc(nil), s.list...)
		s.mu.Unlock()
		out := map[string]Status{}
		all := true
		anyBlocked := false
		var rs map[int64]string
		for _, p := range list {
			if !p.Busy() {
				out[p.Name] = Status{St: "idle"}
				continue
			}
			if g := p.AtGate(); g != "" {
				out[p.Name] = Status{St: "gate", At: g}
				continue
			}
			if rs == nil {
				rs = reasons()
			}
			r := rs[p.gid]
			// re-check the cheap states: the proc may have moved while the stacks were read
			if !p.Busy() || p.AtGate() != "" {
				all = false
				continue
			}
			if blockedReasons[r] {
				out[p.Name] = Status{St: "blocked", Reason: r}
				anyBlocked = true
			} else {
				all = false
			}
		}
		if all {
			// idle and gate are definitive; a "blocked" observation must persist (same reasons) for a while to
			// rule out a proc caught between two blocking operations: 300 us for waits on a condition
			// variable / channel / select, 50 ms for lock-like reasons (a contended mutex whose holder
			// is merely descheduled looks the same for a moment)
			if !anyBlocked {
				return out, true
			}
			if last != nil && same(last, out) {
				need := 300 * time.Microsecond
				for _, st := range out {
					if st.St == "blocked" && st.Reason != "sync.Cond.Wait" && st.Reason != "select" && st.Reason != "chan receive" {
						need = 50 * time.Millisecond
					}
				}
				if time.Since(since) >= need {
					return out, true
				}
			} else {
				last = out
				since = time.Now()
			}
		} else {
			last = nil
		}
		if time.Now().After(deadline) {
			return out, false
		}
		spins++
		if spins < 200 {
			runtime.Gosched()
		} else {
			time.Sleep(50 * time.Microsecond)
		}
	}
}

func same(a, b map[string]Status) bool {
	if len(a) != len(b) {
		return false
	}
	for k, v := range a {
		if b[k] != v {
			return false
		}
	}
	return true
}
