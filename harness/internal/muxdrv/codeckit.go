package muxdrv

import (
	"bytes"
	"fmt"
	"time"

	"github.com/bluenviron/gohlslib/v2"
	"github.com/bluenviron/gohlslib/v2/pkg/codecs"
	"github.com/bluenviron/mediacommon/v2/pkg/codecs/av1"
	"github.com/bluenviron/mediacommon/v2/pkg/codecs/mpeg4audio"
	"github.com/bluenviron/mediacommon/v2/pkg/codecs/vp9"
	"github.com/bluenviron/mediacommon/v2/pkg/formats/fmp4"
)

// bitWriter writes MSB-first bit strings.
type bitWriter struct {
	buf  []byte
	nbit int
}

func (w *bitWriter) bits(v uint64, n int) {
	for i := n - 1; i >= 0; i-- {
		if w.nbit%8 == 0 {
			w.buf = append(w.buf, 0)
		}
		if (v>>uint(i))&1 == 1 {
			w.buf[len(w.buf)-1] |= 1 << uint(7-w.nbit%8)
		}
		w.nbit++
	}
}

func (w *bitWriter) ue(v uint64) {
	v++
	n := 0
	for t := v; t > 1; t >>= 1 {
		n++
	}
	w.bits(0, n)
	w.bits(v, n+1)
}

func (w *bitWriter) trailing() {
	w.bits(1, 1)
	for w.nbit%8 != 0 {
		w.bits(0, 1)
	}
}

// h264SPS builds a baseline-profile SPS with pic_order_cnt_type = 2 (DTS = PTS), w x h macroblocks.
func h264SPS(wMbs, hMbs int, fps int) []byte {
	w := &bitWriter{}
	w.bits(0x67, 8) // nal header: ref_idc 3, type 7
	w.bits(66, 8)   // profile_idc baseline
	w.bits(0xc0, 8) // constraint flags
	w.bits(30, 8)   // level_idc
	w.ue(0)         // seq_parameter_set_id
	w.ue(0)         // log2_max_frame_num_minus4
	w.ue(2)         // pic_order_cnt_type
	w.ue(1)         // max_num_ref_frames
	w.bits(0, 1)    // gaps_in_frame_num_value_allowed_flag
	w.ue(uint64(wMbs - 1))
	w.ue(uint64(hMbs - 1))
	w.bits(1, 1) // frame_mbs_only_flag
	w.bits(1, 1) // direct_8x8_inference_flag
	w.bits(0, 1) // frame_cropping_flag
	if fps > 0 {
		w.bits(1, 1) // vui_parameters_present_flag
		w.bits(0, 1) // aspect_ratio_info_present_flag
		w.bits(0, 1) // overscan_info_present_flag
		w.bits(0, 1) // video_signal_type_present_flag
		w.bits(0, 1) // chroma_loc_info_present_flag
		w.bits(1, 1) // timing_info_present_flag
		w.bits(1, 32)
		w.bits(uint64(2*fps), 32)
		w.bits(1, 1) // fixed_frame_rate_flag
		w.bits(0, 1) // nal_hrd_parameters_present_flag
		w.bits(0, 1) // vcl_hrd_parameters_present_flag
		w.bits(0, 1) // pic_struct_present_flag
		w.bits(0, 1) // bitstream_restriction_flag
	} else {
		w.bits(0, 1)
	}
	w.trailing()
	return emulationInsert(w.buf)
}

// emulationInsert adds emulation prevention bytes after the one-byte NAL header.
func emulationInsert(b []byte) []byte {
	out := []byte{b[0]}
	zeros := 0
	for _, x := range b[1:] {
		if zeros >= 2 && x <= 3 {
			out = append(out, 3)
			zeros = 0
		}
		out = append(out, x)
		if x == 0 {
			zeros++
		} else {
			zeros = 0
		}
	}
	return out
}

// codec kit --------------------------------------------------------------------------------------

// Unit identity is carried inside the payload: magic, track, id in 7-bit groups with the high bit set
// (so that no start code or emulation-prevention pattern can appear), then filler.
func idBytes(track, id, size int) []byte {
	b := []byte{0xD5, 0x80 | byte(track&0x7f),
		0x80 | byte((id>>21)&0x7f), 0x80 | byte((id>>14)&0x7f), 0x80 | byte((id>>7)&0x7f), 0x80 | byte(id&0x7f)}
	for len(b) < size {
		b = append(b, 0xA5)
	}
	return b
}

func parseID(b []byte) (track, id int, ok bool) {
	if len(b) < 6 || b[0] != 0xD5 {
		return 0, 0, false
	}
	for _, x := range b[1:6] {
		if x&0x80 == 0 {
			return 0, 0, false
		}
	}
	track = int(b[1] & 0x7f)
	id = int(b[2]&0x7f)<<21 | int(b[3]&0x7f)<<14 | int(b[4]&0x7f)<<7 | int(b[5]&0x7f)
	return track, id, true
}

// kit synthesises access units of one codec and recognises them again after demuxing.
type kit interface {
	// track returns the gohlslib track (parameter generation 1).
	newCodec() codecs.Codec
	rate() int
	// build returns the access unit for (ra, ps generation carried (0 = none), payload size, id)
	build(track, id int, ra bool, ps int, size int, durCode int) [][]byte
	// write calls the muxer
	write(m *gohlslib.Muxer, tr *gohlslib.Track, ntp time.Time, pts int64, aus [][][]byte) error
	// payloadSize is what the muxer counts against SegmentMaxSize for this AU
	payloadSize(au [][]byte, variant string) int
	// fromFMP4 decodes a sample payload back into the access unit
	fromFMP4(s *fmp4.PartSample) ([][]byte, error)
	// ident finds (track,id) in a demuxed access unit
	ident(au [][]byte) (int, int, bool)
	// unitDur returns the duration in track ticks of a unit (audio codecs), 0 if not fixed
	unitDur(durCode int) int64
	// gen returns the parameter generation of the codec value (0 unknown)
	genOf(c interface{}) int
	kind() string
}

// ---- H264 ---------------------------------------------------------------------------------------

type kitH264 struct{}

var (
	h264SPSGen = map[int][]byte{1: h264SPS(80, 45, 25), 2: h264SPS(40, 30, 30)}
	h264PPSGen = map[int][]byte{1: {0x68, 0xce, 0x38, 0x80}, 2: {0x68, 0xee, 0x3c, 0x80}}
)

func (kitH264) kind() string { return "v" }
func (kitH264) rate() int    { return 90000 }
func (kitH264) newCodec() codecs.Codec {
	return &codecs.H264{SPS: h264SPSGen[1], PPS: h264PPSGen[1]}
}

func (kitH264) build(track, id int, ra bool, ps int, size int, _ int) [][]byte {
	var au [][]byte
	if ps != 0 {
		au = append(au, h264SPSGen[ps], h264PPSGen[ps])
	}
	hdr := byte(0x41) // non-IDR, ref_idc 2
	if ra {
		hdr = 0x65
	}
	au = append(au, append([]byte{hdr}, idBytes(track, id, size)...))
	return au
}

func (kitH264) write(m *gohlslib.Muxer, tr *gohlslib.Track, ntp time.Time, pts int64, aus [][][]byte) error {
	return m.WriteH264(tr, ntp, pts, aus[0])
}

func (kitH264) payloadSize(au [][]byte, variant string) int {
	n := 0
	if variant == "mpegts" {
		for _, nalu := range au {
			n += len(nalu)
		}
		return n
	}
	for _, nalu := range au {
		n += 4 + len(nalu) // AVCC
	}
	return n
}

func (kitH264) fromFMP4(s *fmp4.PartSample) ([][]byte, error) { return s.GetH264() }

func (kitH264) ident(au [][]byte) (int, int, bool) {
	for _, nalu := range au {
		if len(nalu) > 1 && (nalu[0]&0x1f == 1 || nalu[0]&0x1f == 5) {
			return parseID(nalu[1:])
		}
	}
	return 0, 0, false
}
func (kitH264) unitDur(int) int64 { return 0 }
func (kitH264) genOf(c interface{}) int {
	var sps []byte
	switch cc := c.(type) {
	case *codecs.H264:
		sps = cc.SPS
	case *fmp4.CodecH264:
		sps = cc.SPS
	}
	for g, s := range h264SPSGen {
		if bytes.Equal(s, sps) {
			return g
		}
	}
	return 0
}

// ---- H265 ---------------------------------------------------------------------------------------

// Parameter sets: mediacommon's SPS test vectors "1280x720" (30 fps) and "nvenc" (1920x1080, 60 fps); both have
// sps_max_num_reorder_pics = 0, so that the DTS extractor returns DTS = PTS without reading slice headers.
type kitH265 struct{}

var (
	h265VPSGen = map[int][]byte{1: {0x40, 0x01, 0x0c, 0x01, 0xff, 0xff, 0x01}, 2: {0x40, 0x01, 0x0c, 0x01, 0xff, 0xff, 0x02}}
	h265SPSGen = map[int][]byte{
		1: {
			0x42, 0x01, 0x01, 0x04, 0x08, 0x00, 0x00, 0x03, 0x00, 0x98, 0x08, 0x00, 0x00, 0x03, 0x00, 0x00,
			0x5d, 0x90, 0x00, 0x50, 0x10, 0x05, 0xa2, 0x29, 0x4b, 0x74, 0x94, 0x98, 0x5f, 0xfe, 0x00, 0x02,
			0x00, 0x02, 0xd4, 0x04, 0x04, 0x04, 0x10, 0x00, 0x00, 0x03, 0x00, 0x10, 0x00, 0x00, 0x03, 0x01,
			0xe0, 0x80,
		},
		2: {
			0x42, 0x01, 0x01, 0x01, 0x40, 0x00, 0x00, 0x03, 0x00, 0x00, 0x03, 0x00, 0x00, 0x03, 0x00, 0x00,
			0x03, 0x00, 0x7b, 0xa0, 0x03, 0xc0, 0x80, 0x11, 0x07, 0xcb, 0x96, 0xb4, 0xa4, 0x25, 0x92, 0xe3,
			0x01, 0x6a, 0x02, 0x02, 0x02, 0x08, 0x00, 0x00, 0x03, 0x00, 0x08, 0x00, 0x00, 0x03, 0x01, 0xe3,
			0x00, 0x2e, 0xf2, 0x88, 0x00, 0x07, 0x27, 0x0c, 0x00, 0x00, 0x98, 0x96, 0x82,
		},
	}
	h265PPS = []byte{0x44, 0x01, 0xc1, 0x72, 0xb4, 0x62, 0x40}
)

func (kitH265) kind() string { return "v" }
func (kitH265) rate() int    { return 90000 }
func (kitH265) newCodec() codecs.Codec {
	return &codecs.H265{VPS: h265VPSGen[1], SPS: h265SPSGen[1], PPS: h265PPS}
}

func (kitH265) build(track, id int, ra bool, ps int, size int, _ int) [][]byte {
	var au [][]byte
	if ps != 0 {
		au = append(au, h265VPSGen[ps], h265SPSGen[ps], h265PPS)
	}
	hdr := []byte{0x02, 0x01} // TRAIL_R
	if ra {
		hdr = []byte{0x26, 0x01} // IDR_W_RADL
	}
	au = append(au, append(hdr, idBytes(track, id, size)...))
	return au
}

func (kitH265) write(m *gohlslib.Muxer, tr *gohlslib.Track, ntp time.Time, pts int64, aus [][][]byte) error {
	return m.WriteH265(tr, ntp, pts, aus[0])
}

func (kitH265) payloadSize(au [][]byte, _ string) int {
	n := 0
	for _, nalu := range au {
		n += 4 + len(nalu)
	}
	return n
}

func (kitH265) fromFMP4(s *fmp4.PartSample) ([][]byte, error) { return s.GetH265() }

func (kitH265) ident(au [][]byte) (int, int, bool) {
	for _, nalu := range au {
		if len(nalu) > 2 {
			if t := (nalu[0] >> 1) & 0x3f; t == 1 || t == 19 {
				return parseID(nalu[2:])
			}
		}
	}
	return 0, 0, false
}
func (kitH265) unitDur(int) int64 { return 0 }
func (kitH265) genOf(c interface{}) int {
	var sps []byte
	switch cc := c.(type) {
	case *codecs.H265:
		sps = cc.SPS
	case *fmp4.CodecH265:
		sps = cc.SPS
	}
	for g, s := range h265SPSGen {
		if bytes.Equal(s, sps) {
			return g
		}
	}
	return 0
}

// ---- VP9 ----------------------------------------------------------------------------------------

type kitVP9 struct{}

// generation 2 differs in height only (a width-only comparison must not hide the change)
var vp9Size = map[int][2]int{1: {1920, 1080}, 2: {1920, 804}}

func (kitVP9) kind() string { return "v" }
func (kitVP9) rate() int    { return 90000 }
func (kitVP9) newCodec() codecs.Codec {
	return &codecs.VP9{Width: 1920, Height: 1080, Profile: 0, BitDepth: 8, ChromaSubsampling: 1, ColorRange: false}
}

func (kitVP9) build(track, id int, ra bool, ps int, size int, _ int) [][]byte {
	w := &bitWriter{}
	w.bits(2, 2) // frame marker
	w.bits(0, 1) // profile low
	w.bits(0, 1) // profile high
	w.bits(0, 1) // show_existing_frame
	if ra {
		if ps == 0 {
			ps = 1
		}
		w.bits(0, 1) // key frame
		w.bits(1, 1) // show_frame
		w.bits(0, 1) // error_resilient
		w.bits(0x49, 8)
		w.bits(0x83, 8)
		w.bits(0x42, 8)
		w.bits(2, 3) // color space
		w.bits(0, 1) // color range
		w.bits(uint64(vp9Size[ps][0]-1), 16)
		w.bits(uint64(vp9Size[ps][1]-1), 16)
		for w.nbit%8 != 0 {
			w.bits(0, 1)
		}
	} else {
		w.bits(1, 1) // non-key frame
		w.bits(1, 1)
		w.bits(0, 1)
	}
	return [][]byte{append(w.buf, idBytes(track, id, size)...)}
}

func (kitVP9) write(m *gohlslib.Muxer, tr *gohlslib.Track, ntp time.Time, pts int64, aus [][][]byte) error {
	return m.WriteVP9(tr, ntp, pts, aus[0][0])
}
func (kitVP9) payloadSize(au [][]byte, _ string) int         { return len(au[0]) }
func (kitVP9) fromFMP4(s *fmp4.PartSample) ([][]byte, error) { return [][]byte{s.Payload}, nil }
func (kitVP9) unitDur(int) int64                             { return 0 }
func (kitVP9) ident(au [][]byte) (int, int, bool) {
	if len(au) != 1 {
		return 0, 0, false
	}
	var h vp9.Header
	if err := h.Unmarshal(au[0]); err != nil {
		return 0, 0, false
	}
	off := 1
	if !h.NonKeyFrame {
		off = 9
	}
	if len(au[0]) < off {
		return 0, 0, false
	}
	return parseID(au[0][off:])
}
func (kitVP9) genOf(c interface{}) int {
	h := 0
	switch cc := c.(type) {
	case *codecs.VP9:
		h = cc.Height
	case *fmp4.CodecVP9:
		h = cc.Height
	}
	for g, s := range vp9Size {
		if s[1] == h {
			return g
		}
	}
	return 0
}

// ---- AV1 ----------------------------------------------------------------------------------------

type kitAV1 struct{}

// sequence headers (from mediacommon's test vectors) in low-overhead format with the size field, so that
// what the fMP4 sample carries is byte-identical to what was written
var av1SeqGen = map[int][]byte{
	1: av1Sized(1, []byte{0, 0, 0, 66, 167, 191, 228, 96, 13, 0, 64}),
	2: av1Sized(1, []byte{0x0, 0x0, 0x0, 0x42, 0xab, 0xbf, 0xc3, 0x71, 0xab, 0xe6, 0x1}),
}

func av1Sized(typ byte, payload []byte) []byte {
	out := []byte{typ<<3 | 0x02}
	n := len(payload)
	for {
		b := byte(n & 0x7f)
		n >>= 7
		if n > 0 {
			out = append(out, b|0x80)
		} else {
			out = append(out, b)
			break
		}
	}
	return append(out, payload...)
}

func (kitAV1) kind() string { return "v" }
func (kitAV1) rate() int    { return 90000 }
func (kitAV1) newCodec() codecs.Codec {
	return &codecs.AV1{SequenceHeader: av1SeqGen[1]}
}

func (kitAV1) build(track, id int, ra bool, ps int, size int, _ int) [][]byte {
	var tu [][]byte
	if ra {
		if ps == 0 {
			ps = 1
		}
		tu = append(tu, av1SeqGen[ps])
	}
	tu = append(tu, av1Sized(6, idBytes(track, id, size))) // OBU_FRAME
	return tu
}

func (kitAV1) write(m *gohlslib.Muxer, tr *gohlslib.Track, ntp time.Time, pts int64, aus [][][]byte) error {
	return m.WriteAV1(tr, ntp, pts, aus[0])
}

func (kitAV1) payloadSize(au [][]byte, _ string) int {
	bs, err := av1.Bitstream(au).Marshal()
	if err != nil {
		return 0
	}
	return len(bs)
}
func (kitAV1) fromFMP4(s *fmp4.PartSample) ([][]byte, error) { return s.GetAV1() }
func (kitAV1) unitDur(int) int64                             { return 0 }
func (kitAV1) ident(au [][]byte) (int, int, bool) {
	for _, obu := range au {
		if len(obu) > 2 && (obu[0]>>3)&0xf == 6 {
			i := 1
			for i < len(obu) && obu[i]&0x80 != 0 {
				i++
			}
			return parseID(obu[i+1:])
		}
	}
	return 0, 0, false
}
func (kitAV1) genOf(c interface{}) int {
	var sh []byte
	switch cc := c.(type) {
	case *codecs.AV1:
		sh = cc.SequenceHeader
	case *fmp4.CodecAV1:
		sh = cc.SequenceHeader
	}
	for g, s := range av1SeqGen {
		if bytes.Equal(s, sh) {
			return g
		}
	}
	return 0
}

// ---- MPEG-4 Audio -------------------------------------------------------------------------------

type kitAAC struct{ sampleRate int }

func (k kitAAC) kind() string { return "a" }
func (k kitAAC) rate() int    { return k.sampleRate }
func (k kitAAC) newCodec() codecs.Codec {
	return &codecs.MPEG4Audio{Config: mpeg4audio.Config{Type: 2, SampleRate: k.sampleRate, ChannelCount: 2}}
}
func (k kitAAC) build(track, id int, _ bool, _ int, size int, _ int) [][]byte {
	return [][]byte{idBytes(track, id, size)}
}
func (k kitAAC) write(m *gohlslib.Muxer, tr *gohlslib.Track, ntp time.Time, pts int64, aus [][][]byte) error {
	var flat [][]byte
	for _, au := range aus {
		flat = append(flat, au[0])
	}
	return m.WriteMPEG4Audio(tr, ntp, pts, flat)
}
func (k kitAAC) payloadSize(au [][]byte, _ string) int         { return len(au[0]) }
func (k kitAAC) fromFMP4(s *fmp4.PartSample) ([][]byte, error) { return [][]byte{s.Payload}, nil }
func (k kitAAC) unitDur(int) int64                             { return 1024 }
func (k kitAAC) genOf(interface{}) int                         { return 1 }
func (k kitAAC) ident(au [][]byte) (int, int, bool) {
	if len(au) != 1 {
		return 0, 0, false
	}
	return parseID(au[0])
}

// ---- Opus ---------------------------------------------------------------------------------------

type kitOpus struct{}

// duration codes: 0 = 10 ms, 1 = 20 ms, 2 = 40 ms, 3 = 60 ms (SILK NB configurations 0..3)
var opusDur = []int64{480, 960, 1920, 2880}

func (kitOpus) kind() string { return "a" }
func (kitOpus) rate() int    { return 48000 }
func (kitOpus) newCodec() codecs.Codec {
	return &codecs.Opus{ChannelCount: 2}
}
func (kitOpus) build(track, id int, _ bool, _ int, size int, durCode int) [][]byte {
	toc := byte(durCode&3) << 3 // config 0..3, stereo 0, code 0 (one frame)
	return [][]byte{append([]byte{toc}, idBytes(track, id, size)...)}
}
func (kitOpus) write(m *gohlslib.Muxer, tr *gohlslib.Track, ntp time.Time, pts int64, aus [][][]byte) error {
	var flat [][]byte
	for _, au := range aus {
		flat = append(flat, au[0])
	}
	return m.WriteOpus(tr, ntp, pts, flat)
}
func (kitOpus) payloadSize(au [][]byte, _ string) int         { return len(au[0]) }
func (kitOpus) fromFMP4(s *fmp4.PartSample) ([][]byte, error) { return [][]byte{s.Payload}, nil }
func (kitOpus) unitDur(c int) int64                           { return opusDur[c&3] }
func (kitOpus) genOf(interface{}) int                         { return 1 }
func (kitOpus) ident(au [][]byte) (int, int, bool) {
	if len(au) != 1 || len(au[0]) < 2 {
		return 0, 0, false
	}
	return parseID(au[0][1:])
}

func kitFor(codec string, rate int) (kit, error) {
	switch codec {
	case "h264":
		return kitH264{}, nil
	case "h265":
		return kitH265{}, nil
	case "vp9":
		return kitVP9{}, nil
	case "av1":
		return kitAV1{}, nil
	case "aac":
		if rate == 0 {
			rate = 44100
		}
		return kitAAC{sampleRate: rate}, nil
	case "opus":
		return kitOpus{}, nil
	}
	return nil, fmt.Errorf("unknown codec %s", codec)
}

func sameAU(a, b [][]byte) bool {
	if len(a) != len(b) {
		return false
	}
	for i := range a {
		if !bytes.Equal(a[i], b[i]) {
			return false
		}
	}
	return true
}

// expectedParams: RFC 6381 string, RESOLUTION and FRAME-RATE of the two parameter generations of each codec kit.
// Hand-derived from the parameter sets above (profile / level bytes, macroblock counts, timing info), not
// computed with the library under test.
var expectedParams = map[string]struct{ codecs, res, fps []string }{
	// SPS: profile_idc 66 (0x42), constraint flags 0xc0, level_idc 30 (0x1e); 80x45 / 40x30 macroblocks; 25 / 30 fps
	"h264": {[]string{"avc1.42c01e", "avc1.42c01e"}, []string{"1280x720", "640x480"}, []string{"25.000", "30.000"}},
	// general_profile_idc 4 / 1; compatibility flags 0x08000000 / 0x40000000 in reverse bit order = 10 / 2; main tier, level_idc
	// 93 / 123; constraint bytes 98 08 00.. / all zero; ISO 14496-15 E.3 asks for "a hexadecimal number" per byte, trailing zero
	// bytes optional: the library prints unpadded hex and keeps one zero byte (form pinned from one observation);
	// 1280x720 at 30 fps, 1920x1088 cropped by 8 lines at 60 fps (VUI timing 1/30, 1/60)
	"h265": {[]string{"hvc1.4.10.L93.98.8", "hvc1.1.2.L123.0"}, []string{"1280x720", "1920x1080"}, []string{"30.000", "60.000"}},
	// profile 0, level 1.0 (constant in the encoder: "10"), bit depth 8; frame size from the key frame header
	"vp9": {[]string{"vp09.00.10.08", "vp09.00.10.08"}, []string{"1920x1080", "1920x804"}, []string{"", ""}},
	// both sequence headers: profile 0, level index 8, main tier, 8 bit, 4:2:0 (string pinned from one observation,
	// identical for both generations); frame sizes from mediacommon's test vectors
	"av1":  {[]string{"av01.0.08M.08.0.110.01.01.01.0", "av01.0.08M.08.0.110.01.01.01.0"}, []string{"1920x804", "1920x1080"}, []string{"", ""}},
	"aac":  {[]string{"mp4a.40.2", "mp4a.40.2"}, nil, nil},
	"opus": {[]string{"opus", "opus"}, nil, nil},
}

// H264Params returns the synthetic SPS / PPS of a parameter generation (1 or 2) for other drivers.
func H264Params(gen int) ([]byte, []byte) {
	return h264SPSGen[gen], h264PPSGen[gen]
}

// IDBytes / ParseID expose the unit identity encoding to other drivers.
func IDBytes(track, id, size int) []byte { return idBytes(track, id, size) }

// ParseID decodes a unit identity.
func ParseID(b []byte) (int, int, bool) { return parseID(b) }
