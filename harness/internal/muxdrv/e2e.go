package muxdrv

import (
	"bytes"
	"context"
	"errors"
	"fmt"
	"net/http"
	"net/http/httptest"
	"os"
	"reflect"
	"runtime"
	"strings"
	"sync"
	"time"

	"github.com/bluenviron/gohlslib/v2"
	"github.com/bluenviron/gohlslib/v2/pkg/codecs"

	"verif/harness/internal/m3u8"
	"verif/harness/internal/trace"
)

// E2E is one end-to-end run (C09): a real Muxer written in real time and a real Client reading it through an in-process transport.
type E2E struct {
	Cfg      Config `json:"cfg"`
	Steps    []Step `json:"steps"`
	Entry    string `json:"entry"`    // multi | media
	AttachMs int    `json:"attachMs"` // delay of the client's Start after three segments are listed
	DriftPPM int    `json:"driftPPM"` // the wall clock written with the units runs this much faster than the media clock
	JumpMs   int    `json:"jumpMs"`   // the wall clock jumps by this much every JumpEveryMs of media time
	JumpEach int    `json:"jumpEach"`
	TailMs   int    `json:"tailMs"` // how long the client is left running after the last Write
	Tag      string `json:"tag"`
}

type muxTransport struct {
	m *gohlslib.Muxer
}

// RoundTrip serves the request with Muxer.Handle; a blocked handler (Low-Latency) is abandoned when the request is cancelled.
func (t *muxTransport) RoundTrip(req *http.Request) (*http.Response, error) {
	rec := httptest.NewRecorder()
	done := make(chan struct{})
	go func() {
		defer close(done)
		defer func() {
			if e := recover(); e != nil {
				rec.Code = 599
			}
		}()
		t.m.Handle(rec, req)
	}()
	select {
	case <-done:
	case <-req.Context().Done():
		return nil, req.Context().Err()
	}
	res := rec.Result()
	res.Request = req
	if os.Getenv("VERIF_DEBUG") != "" {
		b := rec.Body.Bytes()
		if strings.HasSuffix(req.URL.Path, ".m3u8") {
			fmt.Fprintf(os.Stderr, "== %s %d\n%s\n", req.URL.String(), rec.Code, b)
		} else {
			fmt.Fprintf(os.Stderr, "== %s %d len=%d\n", req.URL.String(), rec.Code, len(b))
		}
	}
	return res, nil
}

func codecName(c codecs.Codec) string {
	switch c.(type) {
	case *codecs.H264:
		return "h264"
	case *codecs.H265:
		return "h265"
	case *codecs.VP9:
		return "vp9"
	case *codecs.AV1:
		return "av1"
	case *codecs.MPEG4Audio:
		return "aac"
	case *codecs.Opus:
		return "opus"
	}
	return "?"
}

// RunE2E executes one end-to-end scenario and appends its trace.
func RunE2E(w *trace.W, idx int, sc E2E) error {
	r := &runner{cfg: sc.Cfg, w: w, urls: map[string]*urlInfo{}, partBody: map[string][]byte{}, served: map[string]bool{}}
	cfg := sc.Cfg
	r.streams, r.lead, r.leadStr = layout(cfg)
	for _, ts := range cfg.Tracks {
		k, err := kitFor(ts.Codec, ts.Rate)
		if err != nil {
			return err
		}
		r.kits = append(r.kits, k)
		r.tracks = append(r.tracks, &gohlslib.Track{Codec: k.newCodec(), ClockRate: k.rate(), Name: ts.Name, Language: ts.Lang, IsDefault: ts.Def})
		r.units = append(r.units, map[int]*unitRec{})
		r.nextID = append(r.nextID, 1)
	}
	r.m = &gohlslib.Muxer{
		Tracks:             r.tracks,
		Variant:            variantOf(cfg.Variant),
		SegmentCount:       cfg.SegCount,
		SegmentMinDuration: time.Duration(cfg.SegMinMs) * time.Millisecond,
		PartMinDuration:    time.Duration(cfg.PartMinMs) * time.Millisecond,
		SegmentMaxSize:     uint64(cfg.MaxSize),
		OnEncodeError:      func(error) {},
	}
	if err := r.m.Start(); err != nil {
		return err
	}
	muxClosed := false
	defer func() {
		if !muxClosed {
			r.m.Close()
		}
	}()

	var mu sync.Mutex
	var events []trace.M
	emit := func(m trace.M) {
		mu.Lock()
		events = append(events, m)
		mu.Unlock()
	}

	// media time of a step, seconds from the earliest one
	tmin := 1e300
	for _, st := range sc.Steps {
		if x := float64(st.DTS) / float64(r.kits[st.T].rate()); x < tmin {
			tmin = x
		}
	}
	ntpOf := func(sec float64) time.Time {
		d := sec * (1 + float64(sc.DriftPPM)/1e6)
		if sc.JumpEach > 0 {
			d += float64(int(sec*1000)/sc.JumpEach) * float64(sc.JumpMs) / 1000
		}
		return ntpBase.Add(time.Duration(d * float64(time.Second)))
	}

	start := time.Now()
	writerDone := make(chan struct{})
	go func() {
		defer close(writerDone)
		for _, st := range sc.Steps {
			k := r.kits[st.T]
			sec := float64(st.DTS)/float64(k.rate()) - tmin
			if d := time.Until(start.Add(time.Duration(sec * float64(time.Second)))); d > 0 {
				time.Sleep(d)
			}
			n := st.N
			if n <= 0 {
				n = 1
			}
			ntp := ntpOf(sec)
			var aus [][][]byte
			dts := st.DTS
			var recs []trace.M
			for i := 0; i < n; i++ {
				id := r.nextID[st.T]
				r.nextID[st.T]++
				dc := 1
				if i < len(st.DC) {
					dc = st.DC[i]
				}
				size := st.Size
				if size < 6 {
					size = 6
				}
				au := k.build(st.T+1, id, st.RA == 1, st.PS, size, dc)
				aus = append(aus, au)
				extra := time.Duration(dts-st.DTS) * time.Second / time.Duration(k.rate())
				mu.Lock()
				r.units[st.T][id] = &unitRec{au: au, dts: dts}
				mu.Unlock()
				recs = append(recs, trace.M{"ev": "wr", "t": st.T + 1, "id": id, "dts": dts, "ntp": ntp.Add(extra).Sub(ntpBase).Microseconds(), "ok": 1})
				dts += k.unitDur(dc)
			}
			err := k.write(r.m, r.tracks[st.T], ntp, st.DTS, aus)
			for _, e := range recs {
				if err != nil {
					e["ok"] = 0
				}
				emit(e)
			}
			if err != nil {
				emit(trace.M{"ev": "wrerr", "msg": err.Error()})
				return
			}
		}
	}()

	get := func(path string) *httptest.ResponseRecorder {
		rec := httptest.NewRecorder()
		req := httptest.NewRequest(http.MethodGet, "http://host/"+path, nil)
		ctx, cancel := context.WithTimeout(context.Background(), 50*time.Millisecond)
		defer cancel()
		dn := make(chan struct{})
		go func() { defer close(dn); r.m.Handle(rec, req.WithContext(ctx)) }()
		select {
		case <-dn:
			return rec
		case <-time.After(60 * time.Millisecond):
			return nil
		}
	}
	leadPL := r.streams[r.leadStr].id + "_stream.m3u8"
	if cfg.Variant == "mpegts" {
		leadPL = "main_stream.m3u8"
	}
	// attach once three segments are listed (a client that starts earlier legitimately refuses: "not enough segments")
	attached := false
	for time.Since(start) < 20*time.Second {
		select {
		case <-writerDone:
		default:
		}
		if rec := get(leadPL); rec != nil && rec.Code == 200 {
			if pl, err := m3u8.ReadMedia(rec.Body.String()); err == nil && len(pl.Segments) >= 3 {
				attached = true
				break
			}
		}
		time.Sleep(10 * time.Millisecond)
	}
	if !attached {
		mu.Lock()
		defer mu.Unlock()
		last := ""
		if len(events) > 0 {
			last = fmt.Sprint(events[len(events)-1])
		}
		if rec := get(leadPL); rec != nil {
			last += fmt.Sprintf(" playlist %d %q", rec.Code, rec.Body.String())
		}
		return fmt.Errorf("the muxer never listed three segments (%d events, last %s)", len(events), last)
	}
	time.Sleep(time.Duration(sc.AttachMs) * time.Millisecond)

	uri := "http://host/index.m3u8"
	if sc.Entry == "media" {
		uri = "http://host/" + leadPL
	}
	var client *gohlslib.Client
	client = &gohlslib.Client{
		URI:                       uri,
		HTTPClient:                &http.Client{Transport: &muxTransport{m: r.m}},
		OnDownloadPrimaryPlaylist: func(string) {},
		OnDownloadStreamPlaylist:  func(string) {},
		OnDownloadSegment:         func(u string) { emit(trace.M{"ev": "dl", "kind": "seg", "uri": u[strings.LastIndex(u, "/")+1:]}) },
		OnDownloadPart:            func(u string) { emit(trace.M{"ev": "dl", "kind": "part", "uri": u[strings.LastIndex(u, "/")+1:]}) },
		OnDecodeError:             func(error) { emit(trace.M{"ev": "decerr"}) },
	}
	client.OnTracks = func(tracks []*gohlslib.Track) error {
		tl := []trace.M{}
		for ci, t := range tracks {
			ci, t := ci, t
			cn := codecName(t.Codec)
			// the muxer track this client track corresponds to: same codec type, in order
			params := 0
			for _, mt := range r.tracks {
				if reflect.TypeOf(mt.Codec) == reflect.TypeOf(t.Codec) && reflect.DeepEqual(mt.Codec, t.Codec) {
					params = 1
				}
			}
			tl = append(tl, trace.M{"codec": cn, "rate": t.ClockRate, "name": t.Name, "lang": t.Language, "def": b2i(t.IsDefault), "params": params})
			sub := 0 // > 0: the unit is not the first one of its callback (its own time is not reported by the client)
			cb := func(pts, dts int64, au [][]byte) {
				mt, id, same := -1, -1, 0
				for ti, k := range r.kits {
					if codecName(r.tracks[ti].Codec) != cn {
						continue
					}
					if tt, i, ok := k.ident(au); ok && tt == ti+1 {
						mu.Lock()
						rec := r.units[ti][i]
						mu.Unlock()
						mt, id = ti+1, i
						if rec != nil && sameAU(rec.au, stripAUD(au)) {
							same = 1
						}
						break
					}
				}
				ev := trace.M{"ev": "data", "t": ci + 1, "mt": mt, "id": id, "same": same, "pts": pts, "dts": dts, "abs": int64(-1), "sub": sub}
				if at, ok := client.AbsoluteTime(t); ok {
					ev["abs"] = at.Sub(ntpBase).Microseconds()
				}
				emit(ev)
			}
			switch t.Codec.(type) {
			case *codecs.H264, *codecs.H265:
				client.OnDataH26x(t, func(pts, dts int64, au [][]byte) { cb(pts, dts, au) })
			case *codecs.AV1:
				client.OnDataAV1(t, func(pts int64, tu [][]byte) { cb(pts, pts, tu) })
			case *codecs.VP9:
				client.OnDataVP9(t, func(pts int64, fr []byte) { cb(pts, pts, [][]byte{fr}) })
			case *codecs.MPEG4Audio:
				client.OnDataMPEG4Audio(t, func(pts int64, aus [][]byte) {
					// one callback may carry several access units (MPEG-TS: one PES)
					for i, a := range aus {
						d := int64(i) * 1024 * int64(t.ClockRate) / int64(t.Codec.(*codecs.MPEG4Audio).Config.SampleRate)
						sub = i
						cb(pts+d, pts+d, [][]byte{a})
					}
					sub = 0
				})
			case *codecs.Opus:
				client.OnDataOpus(t, func(pts int64, ps [][]byte) {
					d := int64(0)
					for i, p := range ps {
						sub = i
						cb(pts+d, pts+d, [][]byte{p})
						d += opusDurOf(p) * int64(t.ClockRate) / 48000
					}
					sub = 0
				})
			}
		}
		emit(trace.M{"ev": "tracks", "list": tl})
		return nil
	}
	if err := client.Start(); err != nil {
		return err
	}
	// the client runs until the stream stops growing (it then ends with "next segment not found", or blocks on the
	// preload hint) or the tail elapses
	var waitErr error
	got := 0
	select {
	case <-writerDone:
	case waitErr = <-client.Wait():
		got = 1
	}
	if got == 0 {
		select {
		case waitErr = <-client.Wait():
			got = 1
		case <-time.After(time.Duration(sc.TailMs) * time.Millisecond):
		}
	}
	<-writerDone
	// segment structure of everything still listed (SegmentCount is chosen so that nothing has expired)
	var segs []trace.M
	for si, s := range r.streams {
		name := s.id + "_stream.m3u8"
		rec := get(name)
		if rec == nil || rec.Code != 200 {
			continue
		}
		pl, err := m3u8.ReadMedia(rec.Body.String())
		if err != nil {
			continue
		}
		for k, sg := range pl.Segments {
			u, _ := splitQuery(sg.URI)
			body := get(u)
			if body == nil || body.Code != 200 {
				continue
			}
			var frs []trace.M
			if cfg.Variant == "mpegts" {
				fr, err := r.decodeTS(body.Body.Bytes())
				if err != nil {
					continue
				}
				frs = []trace.M{fr}
			} else {
				frs, err = r.decodeFMP4(si, body.Body.Bytes())
				if err != nil {
					continue
				}
			}
			lo := map[int]int{}
			hi := map[int]int{}
			for _, fr := range frs {
				for _, tr := range fr["tr"].([]trace.M) {
					t := tr["t"].(int)
					for _, u := range tr["u"].([]trace.M) {
						id := u["id"].(int)
						if id <= 0 {
							continue
						}
						if lo[t] == 0 || id < lo[t] {
							lo[t] = id
						}
						if id > hi[t] {
							hi[t] = id
						}
					}
				}
			}
			ul := []trace.M{}
			for t := range lo {
				ul = append(ul, trace.M{"t": t, "lo": lo[t], "hi": hi[t]})
			}
			pdt := int64(-1)
			if sg.DateTime != "" {
				if tm, err := time.Parse("2006-01-02T15:04:05.999Z07:00", sg.DateTime); err == nil {
					pdt = tm.Sub(ntpBase).Microseconds()
				}
			}
			segs = append(segs, trace.M{"ev": "sg", "s": si + 1, "msn": pl.MediaSeq + k, "pdt": pdt, "u": ul})
		}
	}
	// what the muxer advertised for the renditions
	var mv trace.M
	if rec := get("index.m3u8"); rec != nil && rec.Code == 200 {
		rl := []trace.M{}
		for _, ln := range m3u8.Tokenize(rec.Body.String()) {
			if ln.Kind == "tag" && ln.Tag == "EXT-X-MEDIA" {
				e := trace.M{"name": "", "lang": "", "def": 0, "uri": ""}
				if a, ok := ln.Get("NAME"); ok {
					e["name"] = m3u8.Unquote(a.Raw)
				}
				if a, ok := ln.Get("LANGUAGE"); ok {
					e["lang"] = m3u8.Unquote(a.Raw)
				}
				if a, ok := ln.Get("DEFAULT"); ok && a.Raw == "YES" {
					e["def"] = 1
				}
				if a, ok := ln.Get("URI"); ok {
					e["uri"] = m3u8.Unquote(a.Raw)
				}
				rl = append(rl, e)
			}
		}
		mv = trace.M{"ev": "mv", "renditions": rl}
	}
	closedByUs := 0
	if got == 0 {
		closedByUs = 1
		client.Close()
		select {
		case waitErr = <-client.Wait():
			got = 1
		case <-time.After(3 * time.Second):
		}
	}
	r.m.Close()
	muxClosed = true
	alive := 0
	for k := 0; k < 40; k++ {
		alive = clientFrames()
		if alive == 0 {
			break
		}
		time.Sleep(5 * time.Millisecond)
	}

	sj := trace.M{"cfg": cfg, "entry": sc.Entry, "attachMs": sc.AttachMs, "driftPPM": sc.DriftPPM, "jumpMs": sc.JumpMs, "jumpEach": sc.JumpEach, "tag": sc.Tag}
	tl := []trace.M{}
	for i, k := range r.kits {
		tl = append(tl, trace.M{"codec": cfg.Tracks[i].Codec, "rate": k.rate(), "kind": k.kind(), "name": cfg.Tracks[i].Name, "lang": cfg.Tracks[i].Lang,
			"def": b2i(cfg.Tracks[i].Def)})
	}
	w.Emit(trace.M{"ev": "reset", "i": idx, "sc": sj, "variant": cfg.Variant, "tracks": tl, "lead": r.lead + 1, "leadStream": r.leadStr + 1,
		"nstreams": len(r.streams)})
	mu.Lock()
	for _, e := range events {
		w.Emit(e)
	}
	mu.Unlock()
	for _, e := range segs {
		w.Emit(e)
	}
	if mv != nil {
		w.Emit(mv)
	}
	es := "nil"
	if waitErr != nil {
		es = waitErr.Error()
		if errors.Is(waitErr, gohlslib.ErrClientEOS) {
			es = "eos"
		}
	}
	w.Emit(trace.M{"ev": "wait", "got": got, "err": es, "closed": closedByUs, "alive": alive})
	w.Emit(trace.M{"ev": "end"})
	return nil
}

func opusDurOf(p []byte) int64 {
	if len(p) == 0 {
		return 960
	}
	return opusDur[(p[0]>>3)&3]
}

func clientFrames() int {
	buf := make([]byte, 1<<20)
	n := runtime.Stack(buf, true)
	c := 0
	for _, blk := range bytes.Split(buf[:n], []byte("\n\n")) {
		if bytes.Contains(blk, []byte("gohlslib/v2.(*client")) || bytes.Contains(blk, []byte("gohlslib/v2.(*Client")) {
			c++
		}
	}
	return c
}

// RunE2EAll runs the scenarios of a JSON file.
func RunE2EAll(scs []E2E, out string) (int, error) {
	w, err := trace.Create(out)
	if err != nil {
		return 0, err
	}
	for i, sc := range scs {
		if err := RunE2E(w, i, sc); err != nil {
			w.Emit(trace.M{"ev": "reset", "i": i, "sc": trace.M{"tag": sc.Tag}, "variant": sc.Cfg.Variant, "tracks": []trace.M{}, "lead": 1, "leadStream": 1, "nstreams": 0})
			w.Emit(trace.M{"ev": "harnesserr", "msg": err.Error()})
			w.Emit(trace.M{"ev": "end"})
			fmt.Fprintln(os.Stderr, "e2e", sc.Tag, err)
		}
		w.Flush()
	}
	return len(scs), w.Close()
}
