// Package muxdrv drives a real gohlslib.Muxer with scripted write sequences (TLC-generated or random)
// through the public API only (Start, Write*, Handle, Close) and records, after every write, what an HTTP
// client can observe: every media playlist (read by the independent reader of package m3u8), every newly
// listed segment / part decoded back into access units, probes of every URI seen so far, the storage
// directory, the multivariant playlist. One ndjson line per write (properties C01-C05, C16, C18, C19).
package muxdrv

import (
	"bytes"
	"crypto/sha256"
	"errors"
	"fmt"
	"math"
	"net/http"
	"net/http/httptest"
	"os"
	"regexp"
	"sort"
	"strconv"
	"strings"
	"time"

	"github.com/asticode/go-astits"
	"github.com/bluenviron/gohlslib/v2"
	"github.com/bluenviron/mediacommon/v2/pkg/codecs/h264"
	"github.com/bluenviron/mediacommon/v2/pkg/codecs/mpeg4audio"
	"github.com/bluenviron/mediacommon/v2/pkg/formats/fmp4"

	"verif/harness/internal/m3u8"
	"verif/harness/internal/sched"
	"verif/harness/internal/trace"
)

// TrackSpec describes one muxer track.
type TrackSpec struct {
	Codec string `json:"codec"`
	Rate  int    `json:"rate,omitempty"`
	Name  string `json:"name,omitempty"`
	Lang  string `json:"lang,omitempty"`
	Def   bool   `json:"def,omitempty"`
}

// Config is a muxer configuration.
type Config struct {
	Variant   string      `json:"variant"` // mpegts | fmp4 | ll
	Tracks    []TrackSpec `json:"tracks"`
	SegCount  int         `json:"segCount"`
	SegMinMs  int         `json:"segMinMs"`
	PartMinMs int         `json:"partMinMs"`
	MaxSize   int         `json:"maxSize"`
	Disk      bool        `json:"disk"`
	Query     string      `json:"query,omitempty"`
	ConstSd   int         `json:"constSd,omitempty"` // constant sample duration of the leading track (ticks), 0 = not constant
	NtpMode   string      `json:"ntpMode,omitempty"` // wall clock written with the units: "" = +1 s per Write; "back" = steps back 30 s every 9th Write; "jump" = +5 min every 7th
}

// Step is one Write call.
type Step struct {
	T    int   `json:"t"`
	DTS  int64 `json:"dts"`
	RA   int   `json:"ra"`
	PS   int   `json:"ps"`
	Size int   `json:"size"`
	N    int   `json:"n"`            // number of access units / packets (audio), default 1
	DC   []int `json:"dc,omitempty"` // opus duration codes per packet
}

// Script is a configuration plus a write sequence.
type Script struct {
	Cfg   Config `json:"cfg"`
	Steps []Step `json:"steps"`
}

var ntpBase = time.Date(2024, 3, 1, 12, 0, 0, 0, time.UTC)

type unitRec struct {
	au    [][]byte
	dts   int64
	ntpms int64
}

type streamInfo struct {
	id     string
	tracks []int
}

type urlInfo struct {
	kind   string // seg | part | init
	stream int
	seg    int // parts: id of the parent segment
	id     int
	uri    string
	first  [32]byte
	has    bool
	size   int
}

type runner struct {
	cfg     Config
	w       *trace.W
	m       *gohlslib.Muxer
	tracks  []*gohlslib.Track
	kits    []kit
	lead    int
	streams []streamInfo
	leadStr int
	units   []map[int]*unitRec // per track: id -> unit
	nextID  []int
	nwrites int64
	ntpSkew time.Duration
	dir     string

	s       *sched.Sched
	fetcher map[string]*sched.Proc
	pending map[string]*httptest.ResponseRecorder

	seen     []map[string]bool // per stream: URIs already decoded
	urls     map[string]*urlInfo
	urlOrder []string
	partBody map[string][]byte // part uri -> body (for concat check), pruned
	prefix   string
	panics   []string
	diag     []string
	tokText  []string
	tokSeen  map[string]bool
	adj      []int64 // adjusted part durations (ticks of the leading track) reported during the current Write
	served   map[string]bool
	segSize  map[string]int // listed segment uri -> bytes (C16 bandwidth)
}

func variantOf(v string) gohlslib.MuxerVariant {
	switch v {
	case "mpegts":
		return gohlslib.MuxerVariantMPEGTS
	case "fmp4":
		return gohlslib.MuxerVariantFMP4
	}
	return gohlslib.MuxerVariantLowLatency
}

func isVideoCodec(c string) bool { return c == "h264" || c == "vp9" || c == "av1" || c == "h265" }

// expected stream layout (transcribed from the documentation of the URL scheme, not from internals):
// MPEG-TS has one stream "main"; otherwise one stream per track named video<i+1> / audio<i+1>.
func layout(cfg Config) ([]streamInfo, int, int) {
	lead := -1
	for i, t := range cfg.Tracks {
		if isVideoCodec(t.Codec) {
			lead = i
			break
		}
	}
	if lead < 0 {
		lead = 0
	}
	if cfg.Variant == "mpegts" {
		all := make([]int, len(cfg.Tracks))
		for i := range all {
			all[i] = i
		}
		return []streamInfo{{id: "main", tracks: all}}, lead, 0
	}
	var ss []streamInfo
	ls := 0
	for i, t := range cfg.Tracks {
		id := "audio" + strconv.Itoa(i+1)
		if isVideoCodec(t.Codec) {
			id = "video" + strconv.Itoa(i+1)
		}
		if i == lead {
			ls = len(ss)
		}
		ss = append(ss, streamInfo{id: id, tracks: []int{i}})
	}
	return ss, lead, ls
}

func msToTicks(ms int, rate int) int64 {
	return int64(math.Ceil(float64(ms) * float64(rate) / 1000.0))
}

// RunScript executes one script and appends its trace.
func RunScript(w *trace.W, idx int, sc Script, opts Options) error {
	r := &runner{cfg: sc.Cfg, w: w, fetcher: map[string]*sched.Proc{}, pending: map[string]*httptest.ResponseRecorder{},
		urls: map[string]*urlInfo{}, partBody: map[string][]byte{}, served: map[string]bool{}}
	cfg := sc.Cfg
	r.streams, r.lead, r.leadStr = layout(cfg)

	for i, ts := range cfg.Tracks {
		k, err := kitFor(ts.Codec, ts.Rate)
		if err != nil {
			return err
		}
		r.kits = append(r.kits, k)
		r.tracks = append(r.tracks, &gohlslib.Track{Codec: k.newCodec(), ClockRate: k.rate(), Name: ts.Name, Language: ts.Lang, IsDefault: ts.Def})
		r.units = append(r.units, map[int]*unitRec{})
		r.nextID = append(r.nextID, 1)
		_ = i
	}
	for range r.streams {
		r.seen = append(r.seen, map[string]bool{})
	}

	if cfg.Disk {
		d, err := os.MkdirTemp("", "vmux")
		if err != nil {
			return err
		}
		r.dir = d
		defer os.RemoveAll(d)
	}

	r.m = &gohlslib.Muxer{
		Tracks:             r.tracks,
		Variant:            variantOf(cfg.Variant),
		SegmentCount:       cfg.SegCount,
		SegmentMinDuration: time.Duration(cfg.SegMinMs) * time.Millisecond,
		PartMinDuration:    time.Duration(cfg.PartMinMs) * time.Millisecond,
		SegmentMaxSize:     uint64(cfg.MaxSize),
		Directory:          r.dir,
		OnEncodeError:      func(error) {},
	}
	startErr := r.m.Start()

	leadRate := r.kits[r.lead].rate()
	reset := trace.M{
		"ev": "reset", "i": idx, "variant": cfg.Variant, "lead": r.lead + 1, "leadStream": r.leadStr + 1,
		"segCount": cfg.SegCount, "segMin": msToTicks(cfg.SegMinMs, leadRate), "partMin": msToTicks(cfg.PartMinMs, leadRate),
		"maxSize": cfg.MaxSize, "disk": b2i(cfg.Disk), "startErr": b2i(startErr != nil),
		"ups": leadRate, "msn": 1000 / gcd(1000, int64(leadRate)), "msd": int64(leadRate) / gcd(1000, int64(leadRate)), "query": cfg.Query, "constSd": cfg.ConstSd, "noemit": b2i(opts.NoEmit),
	}
	var tl []trace.M
	for i, k := range r.kits {
		off := int64(0)
		if cfg.Variant != "mpegts" {
			off = 10 * int64(k.rate())
		}
		g := gcd(90000, int64(k.rate()))
		tl = append(tl, trace.M{"k": k.kind(), "rate": k.rate(), "codec": cfg.Tracks[i].Codec, "off": off,
			"tsnum": 90000 / g, "tsden": int64(k.rate()) / g, "sd": k.unitDur(1),
			"def": b2i(cfg.Tracks[i].Def), "named": b2i(cfg.Tracks[i].Name != "")})
	}
	reset["tracks"] = tl
	var sl []trace.M
	for _, s := range r.streams {
		tt := []int{}
		for _, t := range s.tracks {
			tt = append(tt, t+1)
		}
		sl = append(sl, trace.M{"id": s.id, "tracks": tt})
	}
	reset["streams"] = sl
	w.Emit(reset)
	if startErr != nil {
		w.Emit(trace.M{"ev": "end"})
		return nil
	}

	r.s = sched.New()
	// the only hook point of interest here reports the adjusted part duration chosen by the segmenter (ns)
	gohlslib.VerifSetHook(func(name string, args ...int64) {
		if name == "seg.adjusted" && len(args) == 1 {
			rate := int64(r.kits[r.lead].rate())
			ms := args[0] / 1000000
			r.adj = append(r.adj, (ms*rate+999)/1000)
		}
	})
	defer gohlslib.VerifSetHook(nil)
	closed := false
	defer func() {
		if !closed {
			r.m.Close()
		}
		r.s.Quiesce(500 * time.Millisecond)
		r.s.StopAll()
	}()

	for _, st := range sc.Steps {
		ev, ok := r.write(st)
		r.observe(ev, opts)
		w.Emit(ev)
		if opts.Tokens {
			if rec := r.getNB("index.m3u8"); rec != nil && rec.Code == 200 {
				r.tokText = append(r.tokText, rec.Body.String())
			}
			for _, txt := range r.tokText {
				toks := TokensOf(txt)
				key := fmt.Sprint(toks)
				if r.tokSeen == nil {
					r.tokSeen = map[string]bool{}
				}
				if !r.tokSeen[key] {
					r.tokSeen[key] = true
					w.Emit(trace.M{"ev": "tok", "tokens": toks})
				}
			}
			r.tokText = nil
		}
		if !ok {
			break // the statement covers all-successful sequences; an error ends the trace (C18 judges it)
		}
	}
	// Close after the last Write: every file created in Directory must be gone, later requests must return
	r.m.Close()
	closed = true
	ce := trace.M{"ev": "closed", "files": -1}
	if cfg.Disk {
		es, _ := os.ReadDir(r.dir)
		ce["files"] = len(es)
	}
	rec := r.get(r.streams[0].id + "_stream.m3u8")
	ce["plst"] = rec.Code
	w.Emit(ce)
	w.Emit(trace.M{"ev": "end"})
	return nil
}

// Options selects the (more expensive) observations.
type Options struct {
	Probe  bool // C05: probe every known URI after every write
	MV     bool // C16: multivariant playlist
	NoEmit bool // skip decoding of segments (long C04/C18 traces)
	Tokens bool // C15: log every distinct playlist served as a token sequence ("tok" lines)
	Delta  bool // C06: compare delta updates (_HLS_skip) with the full playlist of the same instant
}

func gcd(a, b int64) int64 {
	for b != 0 {
		a, b = b, a%b
	}
	return a
}

func b2i(b bool) int {
	if b {
		return 1
	}
	return 0
}

func (r *runner) write(st Step) (trace.M, bool) {
	t := st.T
	k := r.kits[t]
	n := st.N
	if n <= 0 {
		n = 1
	}
	r.nwrites++
	switch {
	case r.cfg.NtpMode == "back" && r.nwrites%9 == 0:
		r.ntpSkew -= 31 * time.Second
	case r.cfg.NtpMode == "jump" && r.nwrites%7 == 0:
		r.ntpSkew += 5 * time.Minute
	}
	ntp := ntpBase.Add(time.Hour + time.Duration(r.nwrites)*time.Second + r.ntpSkew)
	if r.cfg.NtpMode == "" {
		ntp = ntpBase.Add(time.Duration(r.nwrites) * time.Second)
	}
	var aus [][][]byte
	var ul []trace.M
	dts := st.DTS
	for i := 0; i < n; i++ {
		id := r.nextID[t]
		r.nextID[t]++
		dc := 1
		if i < len(st.DC) {
			dc = st.DC[i]
		}
		size := st.Size
		if size < 6 {
			size = 6
		}
		au := k.build(t+1, id, st.RA == 1, st.PS, size, dc)
		aus = append(aus, au)
		// wall-clock of this unit as the muxer derives it (ms since ntpBase, truncated)
		var extra time.Duration
		if i > 0 {
			extra = time.Duration(dts-st.DTS) * time.Second / time.Duration(k.rate())
		}
		ntpms := ntp.Add(extra).Sub(ntpBase).Milliseconds()
		r.units[t][id] = &unitRec{au: au, dts: dts, ntpms: ntpms}
		ul = append(ul, trace.M{"id": id, "dts": dts, "ra": st.RA, "ps": st.PS,
			"size": k.payloadSize(au, r.cfg.Variant), "ntp": ntpms})
		dts += k.unitDur(dc)
	}
	r.adj = []int64{}
	err := k.write(r.m, r.tracks[t], ntp, st.DTS, aus)
	ev := trace.M{"ev": "write", "t": t + 1, "u": ul, "ok": b2i(err == nil), "adj": r.adj}
	if err != nil {
		ev["err"] = err.Error()
	}
	return ev, err == nil
}

// ---- HTTP access ---------------------------------------------------------------------------------

func (r *runner) get(path string) *httptest.ResponseRecorder {
	rec := httptest.NewRecorder()
	req := httptest.NewRequest(http.MethodGet, "http://host/"+path, nil)
	r.safeHandle(rec, req)
	return rec
}

// safeHandle turns a panic inside Handle into status 599 (a violation for whoever judges the response).
func (r *runner) safeHandle(rec *httptest.ResponseRecorder, req *http.Request) {
	defer func() {
		if e := recover(); e != nil {
			rec.Code = 599
			rec.Body.Reset()
			r.panics = append(r.panics, fmt.Sprint(e))
		}
	}()
	r.m.Handle(rec, req)
}

// getNB fetches a path whose handler may park (playlists before the first content). It returns nil while parked.
func (r *runner) getNB(path string) *httptest.ResponseRecorder {
	p := r.fetcher[path]
	if p == nil {
		p = r.s.Spawn("f:" + path)
		r.fetcher[path] = p
	}
	if p.Busy() {
		// a fetcher parked earlier may just have been woken by the write: let it finish or park again
		r.s.Quiesce(3 * time.Second)
		if p.Busy() {
			return nil // still parked
		}
	}
	if _, stale := r.pending[path]; stale {
		delete(r.pending, path) // completed after we stopped waiting: response of an earlier instant, drop it
	}
	rec := httptest.NewRecorder()
	req := httptest.NewRequest(http.MethodGet, "http://host/"+path, nil)
	p.Start(func() { r.safeHandle(rec, req) }) //nolint:errcheck
	sts, qok := r.s.Quiesce(3 * time.Second)
	if p.Busy() && r.served[path] {
		// a path that has been served before never parks again: give a slow machine one more chance
		time.Sleep(200 * time.Millisecond)
		sts, qok = r.s.Quiesce(5 * time.Second)
	}
	if p.Busy() && r.served[path] {
		r.diag = append(r.diag, fmt.Sprintf("parked-after-served %s %v quiesced=%v", path, sts, qok))
	}
	if !p.Busy() && rec.Code == 200 {
		r.served[path] = true
	}
	if p.Busy() {
		r.pending[path] = rec
		return nil
	}
	return rec
}

var reSeg = regexp.MustCompile(`^([0-9a-f]+)_([a-z0-9]+)_(seg|part)([0-9]+)\.(mp4|ts)$`)
var reInit = regexp.MustCompile(`^([0-9a-f]+)_([a-z0-9]+)_init\.mp4$`)

func splitQuery(uri string) (string, string) {
	if i := strings.IndexByte(uri, '?'); i >= 0 {
		return uri[:i], uri[i+1:]
	}
	return uri, ""
}

func (r *runner) ticks(text string, sec float64) int64 {
	_ = text
	return int64(math.Round(sec * float64(r.kits[r.lead].rate())))
}

func parseDateMs(v string) int64 {
	t, err := time.Parse("2006-01-02T15:04:05.999Z07:00", v)
	if err != nil {
		return -2
	}
	return t.Sub(ntpBase).Milliseconds()
}

func (r *runner) uriID(uri string, stream int, kind string) (int, string) {
	base, q := splitQuery(uri)
	m := reSeg.FindStringSubmatch(base)
	if m == nil || m[3] != kind || m[2] != r.streams[stream].id {
		return -2, q
	}
	if r.prefix == "" {
		r.prefix = m[1]
	}
	if m[1] != r.prefix {
		return -2, q
	}
	id, _ := strconv.Atoi(m[4])
	return id, q
}

// abstractPL projects a media playlist to the record the specifications use.
func (r *runner) abstractPL(stream int, pl *m3u8.Media) trace.M {
	out := trace.M{"ok": 1, "ver": pl.Version, "td": pl.TargetDur, "msn": pl.MediaSeq,
		"pt": 0, "hb": -1, "su": -1, "map": b2i(pl.HasMap), "hint": -1, "skip": -1, "qok": 1,
		"cbr": b2i(pl.CanBlock), "end": b2i(pl.Endlist)}
	qok := true
	if pl.HasPartInf {
		out["pt"] = int64(math.Round(pl.PartTarget * 1000))
	}
	if pl.HasHoldBack {
		out["hb"] = int64(math.Round(pl.HoldBack * 100000)) // units of 10 us (the text has 5 decimals): exact
	}
	if pl.HasSkipUntil {
		out["su"] = int64(math.Round(pl.SkipUntil * 1000))
	}
	if pl.HasSkip {
		out["skip"] = pl.Skipped
	}
	if pl.HasMap {
		base, q := splitQuery(pl.MapURI)
		if !reInit.MatchString(base) {
			out["map"] = -2
		}
		qok = qok && q == r.cfg.Query
	}
	parts := func(ps []m3u8.Part) []trace.M {
		res := []trace.M{}
		for _, p := range ps {
			id, q := r.uriID(p.URI, stream, "part")
			qok = qok && q == r.cfg.Query
			res = append(res, trace.M{"id": id, "dur": r.ticks(p.DurText, p.Dur), "ind": b2i(p.Indep)})
		}
		return res
	}
	ent := []trace.M{}
	for _, s := range pl.Segments {
		e := trace.M{"gap": b2i(s.Gap), "dur": r.ticks(s.DurText, s.Dur), "ntp": int64(-1), "parts": parts(s.Parts)}
		if s.Gap {
			e["id"] = -1
		} else {
			id, q := r.uriID(s.URI, stream, "seg")
			qok = qok && q == r.cfg.Query
			e["id"] = id
		}
		if s.DateTime != "" {
			e["ntp"] = parseDateMs(s.DateTime)
		}
		ent = append(ent, e)
	}
	out["ent"] = ent
	out["open"] = parts(pl.Parts)
	if pl.HasHint {
		id, q := r.uriID(pl.HintURI, stream, "part")
		qok = qok && q == r.cfg.Query
		out["hint"] = id
	}
	out["qok"] = b2i(qok)
	return out
}

// ---- decoding ------------------------------------------------------------------------------------

func (r *runner) identUnit(t int, au [][]byte) (int, int) {
	tt, id, ok := r.kits[t].ident(au)
	if !ok || tt != t+1 {
		return -1, 0
	}
	rec := r.units[t][id]
	if rec == nil {
		return -1, 0
	}
	same := sameAU(rec.au, stripAUD(au))
	return id, b2i(same)
}

func stripAUD(au [][]byte) [][]byte {
	var out [][]byte
	for _, n := range au {
		if len(n) > 0 && n[0] == 9 { // H264 access unit delimiter added by the MPEG-TS writer
			continue
		}
		out = append(out, n)
	}
	return out
}

// decodeFMP4 returns one emit record per fMP4 fragment found in body.
func (r *runner) decodeFMP4(stream int, body []byte) ([]trace.M, error) {
	var parts fmp4.Parts
	if err := parts.Unmarshal(body); err != nil {
		return nil, err
	}
	var out []trace.M
	for _, p := range parts {
		trs := []trace.M{}
		for _, pt := range p.Tracks {
			ti := pt.ID - 1
			if ti < 0 || ti >= len(r.streams[stream].tracks) {
				trs = append(trs, trace.M{"t": -1, "base": int64(pt.BaseTime), "u": []trace.M{}})
				continue
			}
			t := r.streams[stream].tracks[ti]
			dts := int64(pt.BaseTime)
			us := []trace.M{}
			for _, s := range pt.Samples {
				au, err := r.kits[t].fromFMP4(s)
				id, same := -1, 0
				if err == nil {
					id, same = r.identUnit(t, au)
				}
				us = append(us, trace.M{"id": id, "same": same, "dts": dts, "dur": int64(s.Duration),
					"off": int64(s.PTSOffset), "sync": b2i(!s.IsNonSyncSample)})
				dts += int64(s.Duration)
			}
			trs = append(trs, trace.M{"t": t + 1, "base": int64(pt.BaseTime), "u": us})
		}
		out = append(out, trace.M{"seq": int(p.SequenceNumber), "tr": trs})
	}
	return out, nil
}

// decodeTS decodes one MPEG-TS segment on its own (independent decodability) at PES level and checks that
// PAT and PMT precede the first PES packet. (mediacommon's Reader cannot be initialised on a segment that
// lacks data of one of the tracks, which is legal, so the demuxer is used directly.)
func (r *runner) decodeTS(body []byte) (trace.M, error) {
	tablesFirst := 1
	if len(body) >= 188 {
		pid := (int(body[1]&0x1f) << 8) | int(body[2])
		if body[0] != 0x47 || pid != 0 {
			tablesFirst = 0
		}
	} else {
		tablesFirst = 0
	}
	dmx := astits.NewDemuxer(nil2ctx(), bytes.NewReader(body))
	sawPAT, sawPMT, sawPES := false, false, false
	pidTrack := map[uint16]int{}
	per := map[int][]trace.M{}
	for {
		d, err := dmx.NextData()
		if err != nil {
			if errors.Is(err, astits.ErrNoMorePackets) {
				break
			}
			return nil, err
		}
		if d.PAT != nil {
			sawPAT = true
		}
		if d.PMT != nil {
			sawPMT = true
			for _, es := range d.PMT.ElementaryStreams {
				switch es.StreamType {
				case astits.StreamTypeH264Video:
					pidTrack[es.ElementaryPID] = r.trackOfKind("v")
				case astits.StreamTypeAACAudio:
					pidTrack[es.ElementaryPID] = r.trackOfKind("a")
				}
			}
		}
		if d.PES == nil {
			continue
		}
		if !sawPES {
			sawPES = true
			if !sawPAT || !sawPMT {
				tablesFirst = 0
			}
		}
		t, ok := pidTrack[d.PID]
		if !ok {
			per[-2] = append(per[-2], trace.M{"id": -1, "same": 0, "dts": int64(0), "dur": int64(-1), "off": int64(0), "sync": -1})
			continue
		}
		oh := d.PES.Header.OptionalHeader
		if oh == nil || oh.PTS == nil {
			return nil, fmt.Errorf("PES without PTS")
		}
		pts := oh.PTS.Base
		dts := pts
		if oh.DTS != nil {
			dts = oh.DTS.Base
		}
		if r.kits[t].kind() == "v" {
			var au h264.AnnexB
			if err := au.Unmarshal(d.PES.Data); err != nil {
				return nil, err
			}
			id, same := r.identUnit(t, au)
			per[t] = append(per[t], trace.M{"id": id, "same": same, "dts": dts, "dur": int64(-1), "off": pts - dts, "sync": -1})
		} else {
			var pkts mpeg4audio.ADTSPackets
			if err := pkts.Unmarshal(d.PES.Data); err != nil {
				return nil, err
			}
			for i, pkt := range pkts {
				id, same := r.identUnit(t, [][]byte{pkt.AU})
				dd := pts + int64(i)*1024*90000/int64(r.kits[t].rate())
				per[t] = append(per[t], trace.M{"id": id, "same": same, "dts": dd, "dur": int64(-1), "off": int64(0), "sync": -1})
			}
		}
	}
	trs := []trace.M{}
	ts := []int{}
	for t := range per {
		ts = append(ts, t)
	}
	sort.Ints(ts)
	for _, t := range ts {
		trs = append(trs, trace.M{"t": t + 1, "base": int64(-1), "u": per[t]})
	}
	return trace.M{"seq": -1, "tr": trs, "pat": tablesFirst}, nil
}

func (r *runner) trackOfKind(k string) int {
	for i, kt := range r.kits {
		if kt.kind() == k {
			return i
		}
	}
	return 0
}

func classOf(body []byte, ct string) string {
	if len(body) == 0 {
		return "empty"
	}
	if bytes.HasPrefix(body, []byte("#EXTM3U")) {
		return "pl"
	}
	return "media"
}

func properCT(kind, variant, ct string) int {
	switch kind {
	case "seg":
		if variant == "mpegts" {
			return b2i(ct == "video/MP2T")
		}
		return b2i(ct == "video/mp4")
	case "part", "init":
		return b2i(ct == "video/mp4")
	}
	return 1
}

func (r *runner) remember(kind string, stream, id int, uri string) *urlInfo {
	base, _ := splitQuery(uri)
	u := r.urls[base]
	if u == nil {
		u = &urlInfo{kind: kind, stream: stream, id: id, uri: base}
		r.urls[base] = u
		r.urlOrder = append(r.urlOrder, base)
	}
	return u
}

// ---- observation after one write ------------------------------------------------------------------

func (r *runner) observe(ev trace.M, opts Options) {
	var pls []trace.M
	var emits []trace.M
	var media []*m3u8.Media
	for si, s := range r.streams {
		path := s.id + "_stream.m3u8"
		if r.cfg.Query != "" {
			path += "?" + r.cfg.Query
		}
		rec := r.getNB(path)
		if rec == nil {
			pls = append(pls, trace.M{"ok": 0})
			media = append(media, nil)
			continue
		}
		if rec.Code != 200 {
			pls = append(pls, trace.M{"ok": -1, "st": rec.Code})
			media = append(media, nil)
			continue
		}
		if opts.Tokens {
			r.tokText = append(r.tokText, rec.Body.String())
		}
		pl, err := m3u8.ReadMedia(rec.Body.String())
		if err != nil {
			pls = append(pls, trace.M{"ok": -2, "err": err.Error()})
			media = append(media, nil)
			continue
		}
		media = append(media, pl)
		a := r.abstractPL(si, pl)
		a["ctok"] = b2i(rec.Header().Get("Content-Type") == "application/vnd.apple.mpegurl")
		pls = append(pls, a)
	}
	ev["pl"] = pls
	ev["delta"] = 1
	if opts.Delta && r.cfg.Variant == "ll" {
		// a delta update is the full playlist of the same instant with its first N segments (and the EXT-X-MAP) replaced by
		// EXT-X-SKIP:SKIPPED-SEGMENTS=N (C06)
		for si, s := range r.streams {
			full := media[si]
			if full == nil {
				continue
			}
			for _, sk := range []string{"YES", "v2"} {
				path := s.id + "_stream.m3u8?_HLS_skip=" + sk
				if r.cfg.Query != "" {
					path += "&" + r.cfg.Query
				}
				rec := r.get(path)
				if rec.Code != 200 {
					ev["delta"] = 0
					continue
				}
				d, err := m3u8.ReadMedia(rec.Body.String())
				if err != nil {
					ev["delta"] = 0
					continue
				}
				n := 0
				if d.HasSkip {
					n = d.Skipped
				}
				ok := n >= 0 && n <= len(full.Segments) && len(d.Segments) == len(full.Segments)-n && d.MediaSeq == full.MediaSeq &&
					d.TargetDur == full.TargetDur && d.HasHint == full.HasHint && d.HintURI == full.HintURI && len(d.Parts) == len(full.Parts) &&
					(n == 0 || !d.HasMap)
				if ok {
					for i := range d.Segments {
						a, b := d.Segments[i], full.Segments[n+i]
						if a.URI != b.URI || a.DurText != b.DurText || a.Gap != b.Gap || a.DateTime != b.DateTime || len(a.Parts) != len(b.Parts) {
							ok = false
							break
						}
						for k := range a.Parts {
							if a.Parts[k] != b.Parts[k] {
								ok = false
							}
						}
					}
					for k := range d.Parts {
						if ok && d.Parts[k] != full.Parts[k] {
							ok = false
						}
					}
				}
				if !ok {
					ev["delta"] = 0
				}
			}
		}
	}

	// newly listed fragments, in listing order
	for si := range r.streams {
		pl := media[si]
		if pl == nil {
			continue
		}
		if pl.HasMap {
			base, _ := splitQuery(pl.MapURI)
			r.remember("init", si, 0, base)
		}
		visit := func(kind string, uri string, segID int) {
			base, _ := splitQuery(uri)
			id, _ := r.uriID(uri, si, kind)
			u := r.remember(kind, si, id, base)
			if kind == "part" {
				u.seg = segID
			}
			if r.seen[si][base] {
				return
			}
			r.seen[si][base] = true
			// what gets decoded: in LL the parts carry the units; elsewhere the segments do
			decode := (kind == "part") || (kind == "seg" && r.cfg.Variant != "ll")
			rec := r.get(uri)
			body := rec.Body.Bytes()
			if !u.has {
				u.first, u.has, u.size = sha256.Sum256(body), true, len(body)
			}
			if kind == "part" {
				r.partBody[base] = append([]byte(nil), body...)
			}
			if !decode || opts.NoEmit {
				return
			}
			em := trace.M{"s": si + 1, "kind": kind, "id": id, "seg": segID, "st": rec.Code, "frags": []trace.M{}, "derr": 0}
			if rec.Code == 200 {
				if r.cfg.Variant == "mpegts" {
					fr, err := r.decodeTS(body)
					if err != nil {
						em["derr"] = 1
						em["dmsg"] = err.Error()
					} else {
						em["frags"] = []trace.M{fr}
					}
				} else {
					frs, err := r.decodeFMP4(si, body)
					if err != nil {
						em["derr"] = 1
						em["dmsg"] = err.Error()
					} else if frs != nil {
						em["frags"] = frs
					}
				}
			}
			emits = append(emits, em)
		}
		for _, s := range pl.Segments {
			if s.Gap {
				continue
			}
			sid, _ := r.uriID(s.URI, si, "seg")
			for _, p := range s.Parts {
				visit("part", p.URI, sid)
			}
			visit("seg", s.URI, sid)
		}
		openSeg := pl.MediaSeq + len(pl.Segments)
		for _, p := range pl.Parts {
			visit("part", p.URI, openSeg)
		}
		if pl.HasHint {
			base, _ := splitQuery(pl.HintURI)
			id, _ := r.uriID(pl.HintURI, si, "part")
			r.remember("part", si, id, base).seg = openSeg
		}
	}
	if emits == nil {
		emits = []trace.M{}
	}
	ev["emit"] = emits

	// init segment of every stream (C02: generation + declared tracks)
	if r.cfg.Variant != "mpegts" {
		var inits []trace.M
		for si := range r.streams {
			pl := media[si]
			if pl == nil || !pl.HasMap {
				inits = append(inits, trace.M{"ok": 0})
				continue
			}
			rec := r.get(pl.MapURI)
			if rec.Code != 200 {
				inits = append(inits, trace.M{"ok": -1, "st": rec.Code})
				continue
			}
			var in fmp4.Init
			if err := in.Unmarshal(bytes.NewReader(rec.Body.Bytes())); err != nil {
				inits = append(inits, trace.M{"ok": -2})
				continue
			}
			tl := []trace.M{}
			for _, it := range in.Tracks {
				ti := it.ID - 1
				g, t := 0, -1
				if ti >= 0 && ti < len(r.streams[si].tracks) {
					t = r.streams[si].tracks[ti]
					g = r.kits[t].genOf(it.Codec)
				}
				tl = append(tl, trace.M{"t": t + 1, "scale": int(it.TimeScale), "gen": g})
			}
			inits = append(inits, trace.M{"ok": 1, "tracks": tl, "ct": properCT("init", r.cfg.Variant, rec.Header().Get("Content-Type"))})
		}
		ev["init"] = inits
	}

	if opts.Probe {
		ev["probe"] = r.probe(media)
	}
	if r.cfg.Disk {
		ev["dir"] = r.listDir()
	}
	if opts.MV {
		ev["mv"] = r.observeMV(media)
	}
	ev["panics"] = len(r.panics)
	if len(r.diag) > 0 {
		ev["diag"] = r.diag
	}
}

// probe fetches every URI seen so far (bounded to the most recent ones) plus fabricated neighbours.
func (r *runner) probe(media []*m3u8.Media) []trace.M {
	out := []trace.M{}
	lim := 6 * (r.cfg.SegCount + 2) * len(r.streams)
	start := 0
	if len(r.urlOrder) > lim {
		start = len(r.urlOrder) - lim
		for _, old := range r.urlOrder[:start] {
			delete(r.partBody, old)
		}
	}
	hint := map[int]int{}
	for si, pl := range media {
		if pl != nil && pl.HasHint {
			id, _ := r.uriID(pl.HintURI, si, "part")
			hint[si] = id
		}
	}
	for _, base := range r.urlOrder[start:] {
		u := r.urls[base]
		if h, ok := hint[u.stream]; u.kind == "part" && (!ok || u.id >= h) {
			continue // the preload hint blocks by design (C06 covers it); never probe it synchronously
		}
		if media[u.stream] == nil {
			continue
		}
		rec := r.get(base)
		body := rec.Body.Bytes()
		cls := "none"
		if rec.Code == 200 {
			cls = classOf(body, "")
		}
		p := trace.M{"k": u.kind, "s": u.stream + 1, "id": u.id, "seg": u.seg, "st": rec.Code, "cls": cls,
			"ct": properCT(u.kind, r.cfg.Variant, rec.Header().Get("Content-Type")), "same": -1, "cat": -1, "seqok": -1}
		if rec.Code == 200 && len(body) > 0 {
			if u.has {
				p["same"] = b2i(sha256.Sum256(body) == u.first)
			} else {
				u.first, u.has, u.size = sha256.Sum256(body), true, len(body)
			}
			if r.cfg.Variant != "mpegts" && u.kind != "init" {
				var parts fmp4.Parts
				if err := parts.Unmarshal(body); err == nil {
					ok := true
					if u.kind == "part" {
						ok = len(parts) == 1 && int(parts[0].SequenceNumber) == u.id
					}
					p["seqok"] = b2i(ok)
					if u.kind == "seg" {
						seqs := []int{}
						for _, pp := range parts {
							seqs = append(seqs, int(pp.SequenceNumber))
						}
						p["seqs"] = seqs
					}
				} else {
					p["seqok"] = 0
				}
			}
		}
		out = append(out, p)
	}
	// segment bytes = concatenation of its parts' bytes (LL, listed segments that list their parts)
	if r.cfg.Variant == "ll" {
		for si, pl := range media {
			if pl == nil {
				continue
			}
			for _, s := range pl.Segments {
				if s.Gap || len(s.Parts) == 0 {
					continue
				}
				sid, _ := r.uriID(s.URI, si, "seg")
				var cat []byte
				okp := true
				for _, pp := range s.Parts {
					b, _ := splitQuery(pp.URI)
					pb, ok := r.partBody[b]
					if !ok {
						okp = false
						break
					}
					cat = append(cat, pb...)
				}
				if !okp {
					continue
				}
				rec := r.get(s.URI)
				out = append(out, trace.M{"k": "concat", "s": si + 1, "id": sid, "seg": sid, "st": rec.Code, "cls": "media",
					"ct": 1, "same": -1, "cat": b2i(rec.Code == 200 && bytes.Equal(rec.Body.Bytes(), cat)), "seqok": -1})
			}
		}
	}
	// fabricated names: unknown file, ids beyond the newest
	for si, s := range r.streams {
		if r.prefix == "" {
			break
		}
		ext := ".mp4"
		if r.cfg.Variant == "mpegts" {
			ext = ".ts"
		}
		for _, name := range []string{
			r.prefix + "_" + s.id + "_seg999999" + ext,
			"deadbeef0000_" + s.id + "_seg1" + ext,
			r.prefix + "_" + s.id + "_part999999.mp4",
			"nosuchfile.bin",
		} {
			if r.cfg.Variant == "ll" && strings.Contains(name, "part999999") {
				continue // a far-future part is not a preload hint: it has no handler, same as unknown
			}
			rec := r.get(name)
			cls := "none"
			if rec.Code == 200 && rec.Body.Len() > 0 {
				cls = classOf(rec.Body.Bytes(), "")
			}
			out = append(out, trace.M{"k": "fake", "s": si + 1, "id": -9, "seg": -1, "st": rec.Code, "cls": cls, "ct": 1, "same": -1, "cat": -1, "seqok": -1})
		}
	}
	return out
}

func (r *runner) listDir() []trace.M {
	out := []trace.M{}
	es, err := os.ReadDir(r.dir)
	if err != nil {
		return out
	}
	for _, e := range es {
		m := reSeg.FindStringSubmatch(e.Name())
		if m == nil {
			out = append(out, trace.M{"s": -1, "id": -1})
			continue
		}
		si := -1
		for i, s := range r.streams {
			if s.id == m[2] {
				si = i
			}
		}
		id, _ := strconv.Atoi(m[4])
		st, _ := e.Info()
		sz := int64(0)
		if st != nil {
			sz = st.Size()
		}
		out = append(out, trace.M{"s": si + 1, "id": id, "k": m[3], "size": sz})
	}
	return out
}

// observeMV projects the multivariant playlist (C16).
func (r *runner) observeMV(media []*m3u8.Media) trace.M {
	path := "index.m3u8"
	if r.cfg.Query != "" {
		path += "?" + r.cfg.Query
	}
	rec := r.getNB(path)
	if rec == nil {
		return trace.M{"ok": 0}
	}
	if rec.Code != 200 {
		return trace.M{"ok": -1, "st": rec.Code}
	}
	lines := m3u8.Tokenize(rec.Body.String())
	out := trace.M{"ok": 1, "nvar": 0, "vs": 0, "vq": 0, "codecs": []string{}, "res": "", "fps": "", "bw": -1, "abw": -1,
		"audio": "", "indep": 0, "ver": 0, "bwok": -1}
	streamOf := func(uri string) (int, bool) {
		base, q := splitQuery(uri)
		for i, s := range r.streams {
			if base == s.id+"_stream.m3u8" {
				return i + 1, q == r.cfg.Query
			}
		}
		return 0, false
	}
	rend := []trace.M{}
	for i, ln := range lines {
		if ln.Kind != "tag" {
			continue
		}
		if ln.AttrErr != "" {
			return trace.M{"ok": -2, "err": ln.AttrErr}
		}
		switch ln.Tag {
		case "EXT-X-VERSION":
			out["ver"], _ = strconv.Atoi(ln.Value)
		case "EXT-X-INDEPENDENT-SEGMENTS":
			out["indep"] = 1
		case "EXT-X-STREAM-INF":
			out["nvar"] = out["nvar"].(int) + 1
			if a, ok := ln.Get("CODECS"); ok {
				out["codecs"] = strings.Split(m3u8.Unquote(a.Raw), ",")
			}
			if a, ok := ln.Get("RESOLUTION"); ok {
				out["res"] = a.Raw
			}
			if a, ok := ln.Get("FRAME-RATE"); ok {
				out["fps"] = a.Raw
			}
			if a, ok := ln.Get("BANDWIDTH"); ok {
				out["bw"], _ = strconv.Atoi(a.Raw)
			}
			if a, ok := ln.Get("AVERAGE-BANDWIDTH"); ok {
				out["abw"], _ = strconv.Atoi(a.Raw)
			}
			if a, ok := ln.Get("AUDIO"); ok {
				out["audio"] = m3u8.Unquote(a.Raw)
			}
			if i+1 < len(lines) && lines[i+1].Kind == "uri" {
				si, qok := streamOf(lines[i+1].Value)
				out["vs"], out["vq"] = si, b2i(qok)
			}
		case "EXT-X-MEDIA":
			e := trace.M{"s": 0, "name": "", "lang": "", "def": 0, "uri": 0, "qok": 1, "group": "", "type": "", "auto": 0}
			if a, ok := ln.Get("TYPE"); ok {
				e["type"] = a.Raw
			}
			if a, ok := ln.Get("GROUP-ID"); ok {
				e["group"] = m3u8.Unquote(a.Raw)
			}
			if a, ok := ln.Get("NAME"); ok {
				e["name"] = m3u8.Unquote(a.Raw)
			}
			if a, ok := ln.Get("LANGUAGE"); ok {
				e["lang"] = m3u8.Unquote(a.Raw)
			}
			if a, ok := ln.Get("DEFAULT"); ok {
				e["def"] = b2i(a.Raw == "YES")
			}
			if a, ok := ln.Get("AUTOSELECT"); ok {
				e["auto"] = b2i(a.Raw == "YES")
			}
			if a, ok := ln.Get("URI"); ok {
				si, qok := streamOf(m3u8.Unquote(a.Raw))
				e["uri"], e["s"], e["qok"] = 1, si, b2i(qok)
			}
			rend = append(rend, e)
		}
	}
	// renditions without URI describe the leading stream: identify them by name
	for _, e := range rend {
		if e["uri"].(int) == 0 {
			e["s"] = r.leadStr + 1
		}
	}
	// expected names / languages per stream (documented: Track.Name, else the stream id)
	for _, e := range rend {
		si := e["s"].(int)
		nameOK, langOK := 0, 0
		if si >= 1 {
			t := r.streams[si-1].tracks[0]
			want := r.cfg.Tracks[t].Name
			if want == "" {
				want = r.streams[si-1].id
			}
			nameOK = b2i(e["name"].(string) == want)
			langOK = b2i(e["lang"].(string) == r.cfg.Tracks[t].Lang)
		}
		e["nameok"], e["langok"] = nameOK, langOK
		delete(e, "name")
		delete(e, "lang")
	}
	out["rend"] = rend
	// expected RFC 6381 strings / resolution / frame rate per parameter generation (fixed table, codeckit.go)
	var cexp [][]string
	var rexp, fexp []string
	for _, t := range r.cfg.Tracks {
		e := expectedParams[t.Codec]
		cexp = append(cexp, e.codecs)
		if isVideoCodec(t.Codec) {
			rexp, fexp = e.res, e.fps
		}
	}
	out["cexp"] = cexp
	if rexp == nil {
		rexp, fexp = []string{"", ""}, []string{"", ""}
	}
	out["rexp"], out["fexp"] = rexp, fexp
	// bandwidth of single-stream muxers: peak / mean bit rate of the listed segments (numeric oracle in Go,
	// durations at the 10 us resolution of the playlist text => tolerance 0.1 %)
	if len(r.streams) == 1 && media[0] != nil {
		var peak, sizes, durs float64
		okb := true
		for _, sg := range media[0].Segments {
			if sg.Gap {
				continue
			}
			rc := r.get(sg.URI)
			if rc.Code != 200 || sg.Dur <= 0 {
				okb = false
				break
			}
			sz := float64(rc.Body.Len())
			if b := 8 * sz / sg.Dur; b > peak {
				peak = b
			}
			sizes += sz
			durs += sg.Dur
		}
		if okb && durs > 0 {
			avg := 8 * sizes / durs
			near := func(a, b float64) bool { return math.Abs(a-b) <= 0.001*b+1 }
			out["bwok"] = b2i(near(float64(out["bw"].(int)), peak) && near(float64(out["abw"].(int)), avg))
		}
	}
	return out
}

func nil2ctx() interface {
	Deadline() (time.Time, bool)
	Done() <-chan struct{}
	Err() error
	Value(interface{}) interface{}
} {
	return bgctx{}
}

type bgctx struct{}

func (bgctx) Deadline() (time.Time, bool)   { return time.Time{}, false }
func (bgctx) Done() <-chan struct{}         { return nil }
func (bgctx) Err() error                    { return nil }
func (bgctx) Value(interface{}) interface{} { return nil }

var _ = fmt.Sprintf

// TokensOf projects playlist text to the token records of spec/M3U8.tla (tag, attribute names, lexical classes).
func TokensOf(text string) []trace.M {
	out := []trace.M{}
	for _, ln := range m3u8.Tokenize(text) {
		switch ln.Kind {
		case "uri":
			out = append(out, trace.M{"t": "URI", "a": []string{}})
		case "tag":
			names, classes := []string{}, []string{}
			for _, a := range ln.Attrs {
				names = append(names, a.Name)
				classes = append(classes, a.Class)
			}
			tk := trace.M{"t": ln.Tag, "a": names, "c": classes, "aerr": b2i(ln.AttrErr != "")}
			if ln.Value != "" && ln.Attrs == nil && ln.AttrErr == "" {
				tk["v"] = m3u8.SimpleClass(ln.Tag, ln.Value)
			}
			out = append(out, tk)
		}
	}
	return out
}
