package muxdrv

import (
	"fmt"
	"math/rand"
	"net/http"
	"net/http/httptest"
	"os"
	"strconv"
	"strings"
	"sync"
	"sync/atomic"
	"time"

	"github.com/bluenviron/gohlslib/v2"

	"verif/harness/internal/m3u8"
	"verif/harness/internal/trace"
)

// RunStress runs one writer (tiny segments, parameter changes, then Close) against `readers` goroutines that
// cycle over every kind of URL, free-running (no gates). Built with -race this is the memory-level part of
// C08; every playlist response is logged (projected) so that TLC can judge it as a view.
func RunStress(w *trace.W, idx int, cfg Config, readers int, dur time.Duration, seed int64) error {
	r := &runner{cfg: cfg, w: w, urls: map[string]*urlInfo{}, partBody: map[string][]byte{}, served: map[string]bool{}}
	r.streams, r.lead, r.leadStr = layout(cfg)
	for _, ts := range cfg.Tracks {
		k, err := kitFor(ts.Codec, ts.Rate)
		if err != nil {
			return err
		}
		r.kits = append(r.kits, k)
		r.tracks = append(r.tracks, &gohlslib.Track{Codec: k.newCodec(), ClockRate: k.rate(), Name: ts.Name, Language: ts.Lang, IsDefault: ts.Def})
		r.units = append(r.units, map[int]*unitRec{})
		r.nextID = append(r.nextID, 1)
	}
	if cfg.Disk {
		d, err := os.MkdirTemp("", "vstress")
		if err != nil {
			return err
		}
		r.dir = d
		defer os.RemoveAll(d)
	}
	r.m = &gohlslib.Muxer{
		Tracks: r.tracks, Variant: variantOf(cfg.Variant), SegmentCount: cfg.SegCount,
		SegmentMinDuration: time.Duration(cfg.SegMinMs) * time.Millisecond,
		PartMinDuration:    time.Duration(cfg.PartMinMs) * time.Millisecond,
		SegmentMaxSize:     uint64(cfg.MaxSize), Directory: r.dir, OnEncodeError: func(error) {},
	}
	if err := r.m.Start(); err != nil {
		return err
	}
	leadRate := r.kits[r.lead].rate()
	w.Emit(trace.M{"ev": "reset", "i": idx, "variant": cfg.Variant, "segCount": cfg.SegCount, "ups": leadRate,
		"disk": b2i(cfg.Disk), "readers": readers, "lead": r.lead + 1, "leadStream": r.leadStr + 1,
		"msn": 1000 / gcd(1000, int64(leadRate)), "msd": int64(leadRate) / gcd(1000, int64(leadRate)), "query": ""})

	// immutable copy for the readers (the writer keeps mutating r)
	view := &runner{cfg: cfg, kits: r.kits, streams: r.streams, lead: r.lead, leadStr: r.leadStr}

	var stop atomic.Bool
	var panics atomic.Int64
	var wg sync.WaitGroup
	var mu sync.Mutex // protects the reader-side URL pool
	pool := []string{}
	addURL := func(u string) {
		mu.Lock()
		if len(pool) > 64 {
			pool = pool[len(pool)-32:]
		}
		pool = append(pool, u)
		mu.Unlock()
	}
	pickURL := func(rnd *rand.Rand) string {
		mu.Lock()
		defer mu.Unlock()
		if len(pool) == 0 {
			return "nosuch.mp4"
		}
		return pool[rnd.Intn(len(pool))]
	}

	for i := 0; i < readers; i++ {
		wg.Add(1)
		go func(id int) {
			defer wg.Done()
			rnd := rand.New(rand.NewSource(seed*1000 + int64(id)))
			lastMSN := 0
			for !stop.Load() {
				s := view.streams[rnd.Intn(len(view.streams))]
				var path string
				kind := rnd.Intn(8)
				switch kind {
				case 0:
					path = "index.m3u8"
				case 1, 2:
					path = s.id + "_stream.m3u8"
				case 3:
					if cfg.Variant == "ll" {
						path = s.id + "_stream.m3u8?_HLS_msn=" + strconv.Itoa(lastMSN+rnd.Intn(3)) + "&_HLS_part=" + strconv.Itoa(rnd.Intn(3))
					} else {
						path = s.id + "_stream.m3u8"
					}
				case 4:
					if cfg.Variant == "ll" {
						path = s.id + "_stream.m3u8?_HLS_skip=YES"
					} else {
						path = "unknown_seg1.mp4"
					}
				default:
					path = pickURL(rnd)
				}
				rec := httptest.NewRecorder()
				req := httptest.NewRequest(http.MethodGet, "http://host/"+path, nil)
				func() {
					defer func() {
						if e := recover(); e != nil {
							panics.Add(1)
							w.Emit(trace.M{"ev": "panic", "r": id + 1, "path": path, "msg": fmt.Sprint(e)})
						}
					}()
					r.m.Handle(rec, req)
				}()
				if rec.Code == 200 && strings.HasSuffix(strings.SplitN(path, "?", 2)[0], "_stream.m3u8") {
					pl, err := m3u8.ReadMedia(rec.Body.String())
					if err != nil {
						w.Emit(trace.M{"ev": "resp", "r": id + 1, "s": 0, "delta": 0, "pl": trace.M{"ok": -2, "err": err.Error()}})
						continue
					}
					si := 0
					for j, st := range view.streams {
						if st.id == s.id {
							si = j
						}
					}
					a := view.abstractPLStateless(si, pl)
					a["ctok"] = 1
					w.Emit(trace.M{"ev": "resp", "r": id + 1, "s": si + 1, "delta": b2i(pl.HasSkip), "pl": a})
					lastMSN = pl.MediaSeq + len(pl.Segments)
					for _, sg := range pl.Segments {
						if !sg.Gap {
							addURL(sg.URI)
						}
						for _, p := range sg.Parts {
							addURL(p.URI)
						}
					}
					for _, p := range pl.Parts {
						addURL(p.URI)
					}
					if pl.HasMap {
						addURL(pl.MapURI)
					}
					if pl.HasHint && rnd.Intn(4) == 0 {
						addURL(pl.HintURI)
					}
				}
			}
		}(i)
	}

	// the single writer
	rnd := rand.New(rand.NewSource(seed))
	sc := Script{Cfg: cfg, Steps: nil}
	_ = sc
	deadline := time.Now().Add(dur)
	dts := make([]int64, len(r.kits))
	gen := 1
	n := 0
	for time.Now().Before(deadline) {
		for t, k := range r.kits {
			if k.kind() == "v" {
				ra := n%3 == 0
				ps := 0
				if ra {
					if rnd.Intn(4) == 0 {
						gen = 3 - gen
					}
					ps = gen
				}
				st := Step{T: t, DTS: dts[t], RA: b2i(ra), PS: ps, Size: 20, N: 1}
				if _, ok := r.write(st); !ok {
					break
				}
				dts[t] += 9000
			} else {
				for dts[t]*90000 < dts[r.lead]*int64(k.rate()) || (r.kits[r.lead].kind() == "a" && t == r.lead) {
					st := Step{T: t, DTS: dts[t], RA: 1, Size: 10, N: 2, DC: []int{1, 1}}
					if _, ok := r.write(st); !ok {
						break
					}
					dts[t] += 2 * k.unitDur(1)
					if t == r.lead {
						break
					}
				}
			}
		}
		n++
		// keep the unit maps small: identities are not checked here
		if n%200 == 0 {
			for t := range r.units {
				r.units[t] = map[int]*unitRec{}
			}
		}
		time.Sleep(200 * time.Microsecond)
	}
	r.m.Close()
	time.Sleep(20 * time.Millisecond)
	stop.Store(true)
	done := make(chan struct{})
	go func() { wg.Wait(); close(done) }()
	hung := 0
	select {
	case <-done:
	case <-time.After(5 * time.Second):
		hung = 1 // readers still inside the muxer after Close
	}
	w.Emit(trace.M{"ev": "stressend", "panics": int(panics.Load()), "hung": hung, "writes": n})
	w.Emit(trace.M{"ev": "end"})
	return nil
}

// abstractPLStateless is abstractPL without the prefix bookkeeping of the sequential driver (readers run concurrently).
func (r *runner) abstractPLStateless(stream int, pl *m3u8.Media) trace.M {
	rr := *r
	rr.prefix = ""
	return rr.abstractPL(stream, pl)
}
