// Command vdrive is the Go side of the conformance harness: it drives the real gohlslib code
// (built from /repo's working tree with -tags verif) and records ndjson traces that TLC validates
// against the specifications in /verif/spec.
package main

import (
	"fmt"
	"os"
)

type cmdFunc func(args []string) error

var commands = map[string]cmdFunc{}

func register(name string, f cmdFunc) { commands[name] = f }

func main() {
	if len(os.Args) < 2 {
		fmt.Fprintln(os.Stderr, "usage: vdrive <command> [flags]")
		for k := range commands {
			fmt.Fprintln(os.Stderr, "  ", k)
		}
		os.Exit(2)
	}
	f, ok := commands[os.Args[1]]
	if !ok {
		fmt.Fprintln(os.Stderr, "unknown command", os.Args[1])
		os.Exit(2)
	}
	if err := f(os.Args[2:]); err != nil {
		fmt.Fprintln(os.Stderr, "vdrive:", err)
		os.Exit(3)
	}
}
