package main

import (
	"encoding/json"
	"flag"
	"fmt"
	"os"

	"verif/harness/internal/muxdrv"
	"verif/harness/internal/trace"
)

func init() {
	register("mux-replay", func(args []string) error {
		fs := flag.NewFlagSet("mux-replay", flag.ExitOnError)
		scripts := fs.String("scripts", "", "JSON file with [{cfg,steps}...]")
		out := fs.String("out", "trace.ndjson", "trace output")
		probe := fs.Bool("probe", false, "probe every known URI after every write (C05)")
		mv := fs.Bool("mv", false, "observe the multivariant playlist (C16)")
		noemit := fs.Bool("noemit", false, "do not decode segments")
		fs.Parse(args)
		b, err := os.ReadFile(*scripts)
		if err != nil {
			return err
		}
		var scs []muxdrv.Script
		if err := json.Unmarshal(b, &scs); err != nil {
			return err
		}
		w, err := trace.Create(*out)
		if err != nil {
			return err
		}
		for i, sc := range scs {
			if err := muxdrv.RunScript(w, i, sc, muxdrv.Options{Probe: *probe, MV: *mv, NoEmit: *noemit}); err != nil {
				return err
			}
		}
		fmt.Printf("scripts=%d lines=%d\n", len(scs), w.N)
		return w.Close()
	})
}
