package main

import (
	"encoding/json"
	"flag"
	"fmt"
	"os"
	"time"

	"verif/harness/internal/muxdrv"
	"verif/harness/internal/trace"
)

func init() {
	register("mux-replay", func(args []string) error {
		fs := flag.NewFlagSet("mux-replay", flag.ExitOnError)
		scripts := fs.String("scripts", "", "JSON file with [{cfg,steps}...]")
		out := fs.String("out", "trace.ndjson", "trace output")
		probe := fs.Bool("probe", false, "probe every known URI after every write (C05)")
		mv := fs.Bool("mv", false, "observe the multivariant playlist (C16)")
		noemit := fs.Bool("noemit", false, "do not decode segments")
		tokens := fs.Bool("tokens", false, "log every distinct playlist served as tokens (C15)")
		delta := fs.Bool("delta", false, "compare delta updates with the full playlist of the same instant (C06)")
		fs.Parse(args)
		b, err := os.ReadFile(*scripts)
		if err != nil {
			return err
		}
		var scs []muxdrv.Script
		if err := json.Unmarshal(b, &scs); err != nil {
			return err
		}
		w, err := trace.Create(*out)
		if err != nil {
			return err
		}
		for i, sc := range scs {
			if err := muxdrv.RunScript(w, i, sc, muxdrv.Options{Probe: *probe, MV: *mv, NoEmit: *noemit, Tokens: *tokens, Delta: *delta}); err != nil {
				return err
			}
		}
		fmt.Printf("scripts=%d lines=%d\n", len(scs), w.N)
		return w.Close()
	})
}

func init() {
	register("mux-stress", func(args []string) error {
		fs := flag.NewFlagSet("mux-stress", flag.ExitOnError)
		out := fs.String("out", "trace.ndjson", "trace output")
		secs := fs.Float64("secs", 2, "seconds per configuration")
		readers := fs.Int("readers", 8, "reader goroutines")
		seed := fs.Int64("seed", 1, "seed")
		which := fs.String("cfg", "all", "variant filter")
		fs.Parse(args)
		w, err := trace.Create(*out)
		if err != nil {
			return err
		}
		i := 0
		for _, v := range []string{"ll", "fmp4", "mpegts"} {
			if *which != "all" && *which != v {
				continue
			}
			for _, disk := range []bool{false, true} {
				tracks := []muxdrv.TrackSpec{{Codec: "h264"}, {Codec: "aac", Rate: 48000}}
				if v == "mpegts" {
					tracks = []muxdrv.TrackSpec{{Codec: "h264"}, {Codec: "aac", Rate: 44100}}
				}
				sc := 3
				if v == "ll" {
					sc = 7
				}
				cfg := muxdrv.Config{Variant: v, Tracks: tracks, SegCount: sc, SegMinMs: 200, PartMinMs: 100, MaxSize: 1000000, Disk: disk}
				if err := muxdrv.RunStress(w, i, cfg, *readers, time.Duration(*secs*float64(time.Second)), *seed+int64(i)); err != nil {
					return err
				}
				i++
			}
		}
		fmt.Printf("configs=%d lines=%d\n", i, w.N)
		return w.Close()
	})
}
