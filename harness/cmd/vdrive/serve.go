package main

import (
	"flag"
	"fmt"

	"verif/harness/internal/servedrv"
)

func init() {
	register("serve-replay", func(args []string) error {
		fs := flag.NewFlagSet("serve-replay", flag.ExitOnError)
		scripts := fs.String("scripts", "", "JSON file with [[cmd...]...]")
		out := fs.String("out", "trace.ndjson", "trace output")
		nh := fs.Int("nh", 2, "number of handler goroutines")
		disk := fs.Bool("disk", false, "Directory storage")
		fs.Parse(args)
		k, stuck, err := servedrv.RunScripts(*scripts, *out, *nh, *disk)
		fmt.Printf("scripts=%d notquiescent=%d\n", k, stuck)
		return err
	})
}
