package main

import (
	"encoding/json"
	"flag"
	"fmt"

	"verif/harness/internal/clientdrv"
)

func init() {
	register("client-muts", func(args []string) error {
		b, _ := json.Marshal(clientdrv.Mutations)
		fmt.Println(string(b))
		return nil
	})
	register("client-run", func(args []string) error {
		fs := flag.NewFlagSet("client-run", flag.ExitOnError)
		script := fs.String("script", "", "JSON file with scenarios")
		out := fs.String("out", "trace.ndjson", "trace output")
		marker := fs.String("marker", "", "file that names the scenario in progress (crash attribution)")
		fs.Parse(args)
		n, err := clientdrv.RunAll(*script, *out, *marker)
		fmt.Printf("scenarios=%d\n", n)
		return err
	})
}
