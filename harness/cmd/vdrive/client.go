package main

import (
	"encoding/json"
	"flag"
	"fmt"
	"os"
	"verif/harness/internal/muxdrv"

	"verif/harness/internal/clientdrv"
)

func init() {
	register("client-muts", func(args []string) error {
		b, _ := json.Marshal(clientdrv.Mutations)
		fmt.Println(string(b))
		return nil
	})
	register("client-run", func(args []string) error {
		fs := flag.NewFlagSet("client-run", flag.ExitOnError)
		script := fs.String("script", "", "JSON file with scenarios")
		out := fs.String("out", "trace.ndjson", "trace output")
		marker := fs.String("marker", "", "file that names the scenario in progress (crash attribution)")
		fs.Parse(args)
		n, err := clientdrv.RunAll(*script, *out, *marker)
		fmt.Printf("scenarios=%d\n", n)
		return err
	})
}

func init() {
	register("e2e-run", func(args []string) error {
		fs := flag.NewFlagSet("e2e-run", flag.ExitOnError)
		script := fs.String("script", "", "JSON file with end-to-end scenarios")
		out := fs.String("out", "trace.ndjson", "trace output")
		fs.Parse(args)
		b, err := os.ReadFile(*script)
		if err != nil {
			return err
		}
		var scs []muxdrv.E2E
		if err := json.Unmarshal(b, &scs); err != nil {
			return err
		}
		n, err := muxdrv.RunE2EAll(scs, *out)
		fmt.Printf("scenarios=%d\n", n)
		return err
	})
}
