package main

import (
	"flag"
	"fmt"

	"verif/harness/internal/queuedrv"
)

func init() {
	register("queue-replay", func(args []string) error {
		fs := flag.NewFlagSet("queue-replay", flag.ExitOnError)
		scripts := fs.String("scripts", "", "JSON file with [[cmd...]...]")
		out := fs.String("out", "trace.ndjson", "trace output")
		n := fs.Int("n", 1, "threshold of waitUntilSizeIsBelow")
		fs.Parse(args)
		k, stuck, err := queuedrv.RunScripts(*scripts, *out, *n)
		fmt.Printf("scripts=%d notquiescent=%d\n", k, stuck)
		return err
	})
}
