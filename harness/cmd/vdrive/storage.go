package main

import (
	"flag"
	"fmt"
	"math/rand"

	"verif/harness/internal/storagedrv"
)

func init() {
	register("storage-replay", func(args []string) error {
		fs := flag.NewFlagSet("storage-replay", flag.ExitOnError)
		scripts := fs.String("scripts", "", "JSON file with [[op...]...]")
		out := fs.String("out", "trace.ndjson", "trace output")
		unit := fs.Int("unit", 1, "bytes per symbol")
		fs.Parse(args)
		n, err := storagedrv.RunScripts(*scripts, *out, *unit)
		fmt.Printf("scripts=%d\n", n)
		return err
	})
	register("storage-rand", func(args []string) error {
		fs := flag.NewFlagSet("storage-rand", flag.ExitOnError)
		out := fs.String("out", "trace.ndjson", "trace output")
		unit := fs.Int("unit", 4096, "bytes per symbol")
		n := fs.Int("n", 100, "number of scripts")
		seed := fs.Int64("seed", 1, "seed")
		maxOps := fs.Int("maxops", 40, "")
		maxParts := fs.Int("maxparts", 6, "")
		maxLen := fs.Int("maxlen", 64, "")
		fs.Parse(args)
		rnd := rand.New(rand.NewSource(*seed))
		scripts := storagedrv.RandomScripts(rnd, *n, *maxOps, *maxParts, *maxLen, 4)
		k, err := storagedrv.RunAll(scripts, *out, *unit)
		fmt.Printf("scripts=%d\n", k)
		return err
	})
}
