package main

import (
	"flag"
	"fmt"

	"verif/harness/internal/m3u8drv"
)

func init() {
	register("m3u8-values", func(args []string) error {
		fs := flag.NewFlagSet("m3u8-values", flag.ExitOnError)
		values := fs.String("values", "", "JSON file with the abstract values printed by TLC")
		out := fs.String("out", "trace.ndjson", "trace output")
		inst := fs.Int("inst", 3, "concrete instantiations per abstract value")
		seed := fs.Int64("seed", 1, "seed")
		fs.Parse(args)
		n, err := m3u8drv.RunValues(*values, *out, *inst, *seed)
		fmt.Printf("cases=%d\n", n)
		return err
	})
	register("m3u8-decoder", func(args []string) error {
		fs := flag.NewFlagSet("m3u8-decoder", flag.ExitOnError)
		values := fs.String("values", "", "JSON file with the abstract values printed by TLC")
		out := fs.String("out", "trace.ndjson", "trace output")
		per := fs.Int("per", 6, "mutations per value")
		seed := fs.Int64("seed", 1, "seed")
		fs.Parse(args)
		n, err := m3u8drv.RunDecoder(*values, "/repo", *out, *per, *seed)
		fmt.Printf("inputs=%d\n", n)
		return err
	})
}
