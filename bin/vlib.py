"""Shared machinery for /verif/bin/check: harness build, TLC runs, trace validation, evidence, verdicts.

Verdict rule (DESIGN.md section 3):
  exit 0  property held on everything explored (KNOWN-FINDING lines allowed)
  exit 1  VIOLATION property=<id> replay=<path>  -- a property predicate is FALSE on observations of the real code
  exit 2  inconclusive (tool trouble: TLC error, timeout, dead driver)
"""
import json
import os
import re
import shutil
import subprocess
import sys
import tempfile
import time

VERIF = os.path.dirname(os.path.dirname(os.path.abspath(__file__)))
SPEC = os.path.join(VERIF, "spec")
HARNESS = os.path.join(VERIF, "harness")
BUILD = os.path.join(VERIF, ".build")
EVID = os.path.join(VERIF, "evidence")
REPLAYS = os.path.join(EVID, "replays")
REPO = "/repo"
NCPU = os.cpu_count() or 4

GOENV = dict(os.environ)
GOENV.update({
    "GOFLAGS": "-mod=mod", "GOPROXY": "off", "GOSUMDB": "off", "GOTOOLCHAIN": "local",
    "CGO_ENABLED": os.environ.get("CGO_ENABLED", "1"),
})


class Inconclusive(Exception):
    pass


def log(*a):
    print(*a, file=sys.stderr, flush=True)


def seed():
    try:
        return int(os.environ.get("VERIF_SEED", "1"))
    except ValueError:
        return 1


def sh(cmd, cwd=None, env=None, timeout=None, check=False, input=None):
    t0 = time.time()
    try:
        p = subprocess.run(cmd, cwd=cwd, env=env, timeout=timeout, input=input,
                           stdout=subprocess.PIPE, stderr=subprocess.STDOUT, text=True,
                           shell=isinstance(cmd, str))
        out, rc = p.stdout, p.returncode
    except subprocess.TimeoutExpired as e:
        out = (e.stdout or b"").decode("utf-8", "replace") if isinstance(e.stdout, bytes) else (e.stdout or "")
        rc = 124
    if check and rc != 0:
        raise Inconclusive("command failed rc=%d: %s\n%s" % (rc, cmd, out[-4000:]))
    return rc, out, time.time() - t0


# --------------------------------------------------------------------------------------------
# harness build (always from /repo's current working tree, build tag verif)
# --------------------------------------------------------------------------------------------

def build_harness(race=False):
    os.makedirs(BUILD, exist_ok=True)
    # go.sum of the harness must cover the repo's dependencies
    gosum = os.path.join(HARNESS, "go.sum")
    if not os.path.exists(gosum):
        shutil.copy(os.path.join(REPO, "go.sum"), gosum)
    out = os.path.join(BUILD, "vdrive_race" if race else "vdrive")
    cmd = ["go", "build", "-tags", "verif", "-o", out]
    if race:
        cmd.append("-race")
    cmd.append("./cmd/vdrive")
    rc, o, dt = sh(cmd, cwd=HARNESS, env=GOENV, timeout=900)
    if rc != 0:
        raise Inconclusive("harness build failed:\n" + o[-6000:])
    log("[build] %s in %.1fs" % (os.path.basename(out), dt))
    return out


def drive(binary, args, timeout=600, env_extra=None, cwd=None):
    env = dict(GOENV)
    env["VERIF_SEED"] = str(seed())
    if env_extra:
        env.update(env_extra)
    rc, out, dt = sh([binary] + list(args), env=env, timeout=timeout, cwd=cwd)
    return rc, out, dt


# --------------------------------------------------------------------------------------------
# TLC
# --------------------------------------------------------------------------------------------

_RE_STATES = re.compile(r"(\d+) states generated, (\d+) distinct states found, (\d+) states left on queue")
_RE_DEPTH = re.compile(r"The depth of the complete state graph search is (\d+)")
_RE_INV = re.compile(r"Invariant (\S+) is violated")
_RE_ACTP = re.compile(r"Action property (\S+) is violated")


class TLCResult:
    def __init__(self):
        self.rc = None
        self.out = ""
        self.generated = 0
        self.distinct = 0
        self.depth = 0
        self.violated = None      # name of violated invariant / property
        self.kind = "ok"          # ok | invariant | action | temporal | deadlock | postcondition | assumption | error | timeout
        self.wall = 0.0
        self.last_state = {}
        self.hw = 0               # high-water mark of the trace position (trace specs with silent steps)
        self.conforming = -1      # number of traces the model followed to their end

    def ok(self):
        return self.kind == "ok"


def _parse_last_state(out):
    """Parse 'var = value' pairs (only scalars) of the last printed state of a counterexample."""
    blocks = re.split(r"\nState \d+: ", out)
    if len(blocks) < 2:
        return {}
    last = blocks[-1]
    st = {}
    for m in re.finditer(r"^/\\ (\w+) = (.*)$", last, re.M):
        st[m.group(1)] = m.group(2).strip()
    return st


def tlc(module, cfg, files=None, workers=None, timeout=600, args=None, keep=None, java_opts=None,
        extra_files=None, simulate=None, depth=None, tlcseed=None, quiet=False):
    """Run TLC on spec/<module>.tla with spec/<cfg> in a scratch copy of /verif/spec.

    extra_files: {name: path} copied into the scratch dir (e.g. trace.ndjson).
    Returns TLCResult. Never raises on violations; raises Inconclusive on tool trouble only when asked by caller.
    """
    r = TLCResult()
    work = tempfile.mkdtemp(prefix="vtlc_")
    try:
        for f in os.listdir(SPEC):
            if f.endswith(".tla") or f.endswith(".cfg"):
                shutil.copy(os.path.join(SPEC, f), work)
        for name, path in (extra_files or {}).items():
            shutil.copy(path, os.path.join(work, name))
        cmd = ["timeout", str(int(timeout)), "tlc", "-metadir", os.path.join(work, "meta"),
               "-workers", str(workers or NCPU), "-config", cfg, "-noGenerateSpecTE"]
        if simulate:
            cmd += ["-simulate", simulate]
            if depth:
                cmd += ["-depth", str(depth)]
            if tlcseed is not None:
                cmd += ["-seed", str(tlcseed)]
        if args:
            cmd += list(args)
        cmd.append(module + ".tla")
        env = dict(os.environ)
        jo = "" if (java_opts and "-Xss" in java_opts) else "-Xss32m"
        if java_opts:
            jo += " " + java_opts
        env["JAVA_TOOL_OPTIONS"] = (env.get("JAVA_TOOL_OPTIONS", "") + " " + jo).strip()
        rc, out, dt = sh(cmd, cwd=work, env=env, timeout=timeout + 30)
        r.rc, r.out, r.wall = rc, out, dt
        m = None
        for m in _RE_STATES.finditer(out):
            pass
        if m:
            r.generated, r.distinct = int(m.group(1)), int(m.group(2))
        else:
            m2 = re.search(r"(\d+) states generated", out)
            if m2:
                r.generated = int(m2.group(1))
        m = _RE_DEPTH.search(out)
        if m:
            r.depth = int(m.group(1))
        if rc == 124:
            r.kind = "timeout"
        elif _RE_INV.search(out):
            r.kind, r.violated = "invariant", _RE_INV.search(out).group(1)
        elif _RE_ACTP.search(out):
            r.kind, r.violated = "action", _RE_ACTP.search(out).group(1)
        elif "Temporal properties were violated" in out or re.search(r"Temporal property \w+ was violated", out):
            r.kind = "temporal"
            m3 = re.search(r"Temporal property (\w+) was violated", out)
            if m3:
                r.violated = m3.group(1)
        elif "Deadlock reached" in out:
            r.kind = "deadlock"
        elif "Assumption" in out and "is false" in out:
            r.kind = "assumption"
        elif re.search(r"The postcondition .* (is|was) (false|violated)", out) or "Postcondition" in out and "violated" in out:
            r.kind = "postcondition"
        elif rc != 0 or "Error:" in out:
            # simulation mode ends with rc 0 when num traces reached
            r.kind = "error"
        if r.kind in ("invariant", "action", "deadlock", "temporal"):
            r.last_state = _parse_last_state(out)
        for m in re.finditer(r'<<"HW", (\d+)>>', out):
            r.hw = max(r.hw, int(m.group(1)))
        for m in re.finditer(r'<<"CONFORMING", (\d+)>>', out):
            r.conforming = int(m.group(1))
        if keep:
            for name in keep:
                p = os.path.join(work, name)
                if os.path.exists(p):
                    shutil.copy(p, keep[name])
        if not quiet:
            log("[tlc] %s/%s: %s gen=%d distinct=%d depth=%d %.1fs%s" % (
                module, cfg, r.kind, r.generated, r.distinct, r.depth, dt,
                (" violated=" + str(r.violated)) if r.violated else ""))
        return r
    finally:
        shutil.rmtree(work, ignore_errors=True)


def apalache(module, args, timeout=600):
    """Run apalache-mc check on spec/<module>.tla in a scratch copy. Returns (ok, error_found, output)."""
    work = tempfile.mkdtemp(prefix="vapa_")
    try:
        shutil.copy(os.path.join(SPEC, module + ".tla"), work)
        cmd = ["timeout", str(int(timeout)), "apalache-mc", "check"] + list(args) + [module + ".tla"]
        rc, out, dt = sh(cmd, cwd=work, timeout=timeout + 30)
        ok = "EXITCODE: OK" in out
        err = "EXITCODE: ERROR (12)" in out
        log("[apalache] %s %s: %s %.1fs" % (module, " ".join(args), "ok" if ok else ("counterexample" if err else "failed rc=%s" % rc), dt))
        return ok, err, out
    finally:
        shutil.rmtree(work, ignore_errors=True)


def tlc_must_pass(module, cfg, **kw):
    """Design-level model check; a failure here is a statement about the model => inconclusive (exit 2)."""
    r = tlc(module, cfg, **kw)
    if not r.ok():
        raise Inconclusive("design model check %s/%s did not pass: %s %s\n%s" % (
            module, cfg, r.kind, r.violated, r.out[-3000:]))
    return r


def hist_lines(out, tag="HIST"):
    """Extract JSON histories printed by PrintT(<<"HIST", ToJson(h)>>)."""
    res = []
    pre = '<<"%s", ' % tag
    for line in out.splitlines():
        if line.startswith(pre) and line.endswith(">>"):
            s = line[len(pre):-2]
            try:
                res.append(json.loads(json.loads(s)))
            except Exception:
                pass
    return res


# --------------------------------------------------------------------------------------------
# trace validation
# --------------------------------------------------------------------------------------------

def validate_trace(module, cfg, trace_path, timeout=900, java_opts=None, extra_files=None):
    """Run the trace spec over an ndjson trace. Returns (TLCResult, line) where line is the 1-based index of
    the trace line whose consumption produced the violating state (0 if none)."""
    ef = {"trace.ndjson": trace_path}
    if extra_files:
        ef.update(extra_files)
    r = tlc(module, cfg, workers=1, timeout=timeout, extra_files=ef,
            java_opts=java_opts or "-Xmx2g -Xss16m -XX:TieredStopAtLevel=1 -XX:ParallelGCThreads=1 -XX:CICompilerCount=1", quiet=True)
    line = 0
    if r.kind in ("invariant", "action"):
        try:
            line = int(r.last_state.get("l", "0")) - 1
        except ValueError:
            line = 0
    return r, line


def count_lines(path):
    n = 0
    with open(path) as f:
        for _ in f:
            n += 1
    return n


def cut_replay(trace_path, line, pid, suffix=""):
    """Write the sub-trace from the last 'reset' line up to `line` (1-based, inclusive) as replay file."""
    os.makedirs(REPLAYS, exist_ok=True)
    out = os.path.join(REPLAYS, "%s-seed%d%s.ndjson" % (pid, seed(), suffix))
    with open(trace_path) as f:
        lines = f.readlines()
    if line <= 0 or line > len(lines):
        line = len(lines)
    start = 0
    for i in range(line - 1, -1, -1):
        try:
            if json.loads(lines[i]).get("ev") == "reset":
                start = i
                break
        except Exception:
            pass
    with open(out, "w") as f:
        f.writelines(lines[start:line])
    return out


# --------------------------------------------------------------------------------------------
# known findings / evidence / verdict
# --------------------------------------------------------------------------------------------

def known_findings(pid):
    p = os.path.join(VERIF, "KNOWN_FINDINGS.json")
    if not os.path.exists(p):
        return []
    with open(p) as f:
        d = json.load(f)
    return [k for k in d.get("findings", []) if k.get("property") == pid and k.get("status") == "known"]


def write_evidence(pid, tier, level, coverage, assumptions, wall, violations):
    os.makedirs(EVID, exist_ok=True)
    ev = {
        "property_id": pid,
        "tier": tier,
        "seed": seed(),
        "level": level,
        "coverage": coverage,
        "assumptions": assumptions,
        "wall_s": round(wall, 2),
        "violations": violations,
    }
    tmp = os.path.join(EVID, pid + ".json.tmp")
    with open(tmp, "w") as f:
        json.dump(ev, f, indent=1, sort_keys=True)
        f.write("\n")
    os.replace(tmp, os.path.join(EVID, pid + ".json"))


class Verdict:
    """Collects violations / known findings for one property run."""

    def __init__(self, pid):
        self.pid = pid
        self.violations = []   # (what, replay)
        self.known = []
        self.kf = known_findings(pid)

    def violation(self, what, replay, signature=None):
        for k in self.kf:
            if signature is not None and k.get("signature") == signature:
                if what not in [w for w, _ in self.known]:
                    self.known.append((k.get("what", what), replay))
                return
        self.violations.append((what, replay))

    def finish(self):
        for what, _ in self.known:
            print("KNOWN-FINDING: property=%s %s" % (self.pid, what), flush=True)
        for what, replay in self.violations:
            print("VIOLATION property=%s replay=%s" % (self.pid, replay), flush=True)
            log("  violation detail: " + what)
        return 1 if self.violations else 0


# --------------------------------------------------------------------------------------------
# parallel trace validation: split at 'reset' lines, one TLC per chunk
# --------------------------------------------------------------------------------------------

def split_trace(trace_path, nchunks, workdir):
    with open(trace_path) as f:
        lines = f.readlines()
    starts = [i for i, ln in enumerate(lines) if '"ev":"reset"' in ln]
    if not starts or starts[0] != 0:
        starts = [0] + starts
    per = max(1, (len(starts) + nchunks - 1) // nchunks)
    chunks = []
    for c in range(0, len(starts), per):
        a = starts[c]
        b = starts[c + per] if c + per < len(starts) else len(lines)
        p = os.path.join(workdir, "chunk%03d.ndjson" % len(chunks))
        with open(p, "w") as f:
            f.writelines(lines[a:b])
        chunks.append((p, b - a))
    return chunks, len(starts)


class TraceCheck:
    """Result of validating one trace file (possibly in parallel chunks)."""

    def __init__(self):
        self.lines = 0
        self.traces = 0
        self.states = 0
        self.failures = []   # (invariant, replay_path, detail)
        self.incomplete = [] # chunks that TLC did not consume completely (tool trouble / model not enabled)
        self.wall = 0.0
        self.conforming = 0  # traces the implementation-shaped model followed to the end (-1 per chunk = n/a)


def validate_trace_parallel(module, cfg, trace_path, pid, nchunks=None, timeout=900, tag="", extra_files=None,
                            accept="depth"):
    """Validate a (multi-)trace. A chunk is accepted when TLC reports no violation and its search depth
    equals lines+1 (every line consumed, one state per line)."""
    from concurrent.futures import ThreadPoolExecutor
    t0 = time.time()
    tc = TraceCheck()
    work = tempfile.mkdtemp(prefix="vchunks_")
    try:
        chunks, ntr = split_trace(trace_path, nchunks or NCPU, work)
        tc.traces = ntr

        def one(ch):
            path, n = ch
            r, line = validate_trace(module, cfg, path, timeout=timeout, extra_files=extra_files)
            return path, n, r, line

        with ThreadPoolExecutor(max_workers=min(len(chunks), NCPU)) as ex:
            results = list(ex.map(one, chunks))
        log("[trace] %s/%s %s: %d chunks, %d lines, kinds=%s, %.1fs" % (
            module, cfg, os.path.basename(trace_path), len(chunks), sum(n for _, n in chunks),
            sorted(set(r.kind for _, _, r, _ in results)), time.time() - t0))
        for idx, (path, n, r, line) in enumerate(results):
            tc.lines += n
            tc.states += r.distinct
            if r.conforming >= 0:
                tc.conforming += r.conforming
            if r.kind in ("invariant", "action"):
                rp = cut_replay(path, line, pid, suffix="%s-c%d" % (tag, idx))
                tc.failures.append((r.violated, rp, "line %d of chunk %d" % (line, idx)))
            elif r.kind != "ok" or (accept == "depth" and r.depth != n + 1) or (accept == "hw" and r.hw != n + 1):
                tc.incomplete.append("chunk %d: kind=%s depth=%d lines=%d\n%s" % (idx, r.kind, r.depth, n, r.out[-1500:]))
    finally:
        shutil.rmtree(work, ignore_errors=True)
    tc.wall = time.time() - t0
    return tc
