#!/usr/bin/env python3
"""Regenerates /verif/MANIFEST.json from the table below (kept valid at all times)."""
import json
import subprocess

CLAIMED = {
 "C17": dict(
  cat="model_checking",
  text="Storage.tla: abstract file + disk implementation shape, refinement checked exhaustively by TLC; every maximal "
       "model history (TLC-generated) and random deep/large scripts are replayed on the real RAM and disk backends and "
       "the recorded results are validated by TLC against the model (StorageTrace.tla).",
  note="Write discipline of the muxer call sites (one writer per part, newest part only); bytes abstracted to block "
       "symbols; io.ReadFull for sized reads; Linux unlink semantics.",
  technique="TLA+ model + TLC exhaustive check; TLC-generated scripts replayed on real code; TLC trace validation",
  ref="7 C17"),
 "C20": dict(
  cat="model_checking",
  text="SegQueue.tla models push/pull/waitUntilSizeIsBelow at their synchronization points (critical sections, the "
       "Unlock..select window, channel identities); TLC checks FIFO, no-lost-wake-up, bounded look-ahead and liveness "
       "exhaustively, refutes the weakened variants (channel read after unlock) and exports every schedule to the bound; "
       "the schedules are replayed on the real clientSegmentQueue with goroutines gated at the hook points and the "
       "observed quiescent states are validated by TLC (SegQueueTrace.tla). End to end, the real Client is run against the stub "
       "server at several server / application speeds (finished and live playlists of 6-30 segments, blocking or slow callbacks) "
       "and TLC checks on the request / delivery log that downloads never run more than 3 segments ahead (ClientRun.tla).",
  note="one producer, one consumer; goroutine wait states read from the Go runtime; gated-schedule alarms must reproduce "
       "in re-runs of the same schedule before they are reported",
  technique="TLA+ model + TLC safety/liveness; TLC-generated schedules replayed with gated goroutines; TLC trace validation",
  ref="7 C20"),
}


MUX_NOTE = ("synthetic DTS=PTS video (H264 POC type 2, VP9, AV1), AAC, Opus; durations converted to leading-track ticks; "
            "whole-millisecond SegmentMinDuration/PartMinDuration; a Write error ends a trace")
MUX_TECH = "TLA+ monitor of the property clauses (MuxMonitor.tla) checked by TLC on traces recorded from the real Muxer after every Write"
for _pid, _text, _ref in [
 ("C01", "every accepted unit must come out of the advertised segments/parts once, in order, byte-identical, with container time = written time + constant offset, from the start point on (pending-unit queue per track in MuxMonitor.tla, consumed by the units decoded from every newly listed fragment)", "7 C01"),
 ("C02", "expected segment boundaries are computed from the written units by the rule of the statement (random access + min duration / 100 writes / pending parameter change) and every listed segment must begin with exactly that unit; MPEG-TS segments start with PAT/PMT", "7 C02"),
 ("C03", "EXTINF / part durations against the media time between boundary units, PROGRAM-DATE-TIME against the wall clock written with the boundary unit, TARGETDURATION / PART-TARGET / PART-HOLD-BACK / CAN-SKIP-UNTIL relations, target duration monotone", "7 C03"),
 ("C04", "window laws for histories of any length as an inductive invariant of Window.tla (Apalache); pairwise evolution of successive playlists of each stream (media sequence monotone, same MSN same entry, tail append / head removal, at most SegmentCount, URI number = MSN, part ids consecutive over the whole history, parts only under the last two segments, preload hint = next part) and agreement between streams", "7 C04"),
 ("C05", "every URI ever listed is probed after every Write: listed ones resolve with the proper type and identical bytes, segment = concatenation of parts, fragment sequence number = part id, URIs outside the window never return media", "7 C05"),
 ("C16", "the multivariant playlist after every Write against the track list and the current parameter generation: one variant whose URI is the leading stream, query preserved, CODECS = one RFC 6381 string per distinct track codec of the current generation, RESOLUTION / FRAME-RATE of the current generation, one AUDIO rendition per non-leading audio stream (name, language, URI unless leading), exactly one DEFAULT (marked, else first), BANDWIDTH >= AVERAGE-BANDWIDTH > 0 and = peak / mean bit rate for single-stream muxers", "7 C16"),
 ("C19", "constant-rate LL streams over the frame-rate x PartMinDuration x SegmentMinDuration x key-frame-spacing grid (video-led with audio of odd rates starting late, audio-only AAC / Opus): all non-final parts have one duration D, 0.85 PART-TARGET <= D <= PART-TARGET of the same playlist, D >= PartMinDuration, D < 2 max(PartMin, sd) + sd, PART-TARGET stable", "7 C19"),
 ("C18", "at most SegmentCount listed for histories of any length (inductive invariant of Window.tla, Apalache); on the real muxer: at most SegmentCount listed, directory holds only listed + open segment files, expired segment/part URIs stop resolving, payload per published segment <= SegmentMaxSize over long histories (hundreds/thousands of rotations)", "7 C18"),
]:
    CLAIMED[_pid] = dict(cat="model_checking", text=_text, note=MUX_NOTE, technique=MUX_TECH, ref=_ref)

SRV_NOTE = ("one writer goroutine that finally calls Close; Low-Latency, one H264 stream; goroutine states read from the Go "
            "runtime at quiescent points; schedules at the granularity of the muxer's critical sections")
SRV_TECH = "TLA+ model (MuxerServe.tla) checked by TLC (safety + liveness); TLC-generated and attack schedules replayed on the real Muxer with gated goroutines; TLC trace validation"
CLAIMED["C06"] = dict(cat="model_checking", note=SRV_NOTE, technique=SRV_TECH, ref="7 C06",
  text="MuxerServe.tla models writer / handlers / Close over the mutex and condition variable; TLC checks that a parked blocking reload or preload hint is never satisfiable at a quiescent point, that a 200 contains the requested part, that a 400 is immediate and never for the open segment or the next, and refutes the weakened variants; the schedules are replayed on the real Muxer and the same predicates are evaluated on the observed responses and goroutine states; delta updates (_HLS_skip=YES / v2) are compared with the full playlist of the same instant after every Write of Low-Latency histories (C06_DeltaIsSuffix)")
CLAIMED["C07"] = dict(cat="model_checking", note=SRV_NOTE, technique=SRV_TECH, ref="7 C07",
  text="Close is three model steps (mark under the mutex, Broadcast, per-stream close); TLC checks that after Close returned nobody is left inside, the mutex is free and storage is released for every interleaving with waking waiters (and liveness CloseUnblocks); attack schedules of the weakened variants (stream flag outside the lock, hint handler keeping the lock) and random schedules are replayed on the real Muxer; the directory must be empty after Close in every variant")
CLAIMED["C08"] = dict(cat="model_checking", note=SRV_NOTE + "; memory-level races are judged by the Go race detector on the same schedules plus a free-running stress run", technique=SRV_TECH + "; Go race detector", ref="7 C08",
  text="every playlist response must be the snapshot of the state of its quiescent point and satisfy the single-playlist invariants; no panic; the harness is additionally built with -race and run over gated schedules and a free-running stress (one writer with parameter changes, many readers of every URL kind, RAM and disk)")

CLAIMED["C14"] = dict(cat="model_checking", ref="7 C14",
  text="M3U8.tla transcribes Marshal (Encode) and Unmarshal (Decode) tag by tag at token level; TLC enumerates every subset of optional fields per tag group (1200 abstract values) and checks Decode(Encode(p)) = p, refuting the pre-fix encoder; each abstract value is instantiated with concrete legal values and pushed through the real Marshal / Unmarshal / playlist.Unmarshal: field-by-field equality at the text resolution, fixpoint, kind detection and four syntactic variants are judged by TLC on the recorded cases; the real token shapes equal Encode(p)",
  note="documented field requirements as stated in the evidence assumptions; concrete values are sampled (full integer ranges, 10 us durations, time zones)",
  technique="TLA+ encoder/decoder model + TLC exhaustive enumeration of abstract values; instantiation on the real code; TLC trace validation")
CLAIMED["C15"] = dict(cat="fault_enumeration", ref="7 C15",
  text="an independent RFC 8216 grammar predicate (M3U8.tla Grammar) is evaluated by TLC on the tokens of everything the real Marshal produced for the enumerated values and of every playlist served by real muxers; the decoder is fed token-level malformations of each value plus the repository's corpora: no panic, no hang, and successes satisfy the structural postconditions and can be marshaled again",
  note="token-level malformations and corpora, not coverage-guided fuzzing of arbitrary bytes (DESIGN section 9); one recorded finding (unquoted BYTERANGE) is tolerated by signature",
  technique="TLA+ grammar automaton checked by TLC on recorded tokens; model-driven fault enumeration for the decoder")

CLI_NOTE = ("streams synthesised by the harness (H264, AAC, Opus; MPEG-TS and fMP4) and served by an in-process http.RoundTripper; "
            "one unit lasts 20 ms (real-time pacing of the client)")
CLAIMED["C11"] = dict(cat="model_checking", ref="7 C11", note=CLI_NOTE + "; request arrival order at the stub = issue order per stream",
  text="ClientFetch.tla: the downloader state machine (first playlist, init, Select, segment, reload; Low-Latency hint loop) against a server whose window slides arbitrarily between polls; TLC checks consecutive / start position / too-late / EOS / errors-justified on every reachable state, refutes two weakened selection rules, and emits playlist histories; the real Client is run against each history (plus variety: relative / dot-dot / absolute-path / absolute-URL references with playlists and media in different directories, query strings, byte ranges with and without start, renditions evolving independently, Low-Latency streams incl. preload hints as byte ranges of one file and Low-Latency renditions) and TLC validates the stub's request log and Wait() against the same operators (ClientRun.tla)",
  technique="TLA+ model + TLC exhaustive check; TLC-generated playlist histories served to the real Client; TLC trace validation of the request log")
CLAIMED["C10"] = dict(cat="model_checking", ref="7 C10", note=CLI_NOTE + "; arithmetic beyond TLC's 32-bit integers (2^40 bases, 33-bit circle) is evaluated exactly by the trace annotator as error terms that TLC requires to be 0; one recorded finding (stale date-time anchor for early MPEG-TS units) is tolerated by signature",
  text="ClientRun.tla judges every OnTracks / OnData callback of the real Client over synthesised streams (timestamp bases 0..2^40 and around the 33-bit wrap, 1 video + 0..3 audio in one playlist or as renditions with different time scales, track order / id permutations, B-frame PTS offsets, multi-fragment segments, several audio access units per MPEG-TS PES, audio PIDs before the video PID, byte ranges, PROGRAM-DATE-TIME with jumps, Low-Latency parts, VOD and live starts): track list, byte identity, per-track order and exactly-once, only downloaded units, never negative time, DTS / PTS / AbsoluteTime error terms, everything delivered at EOS",
  technique="TLA+ monitor (ClientRun.tla) checked by TLC on traces recorded from the real Client; exact-arithmetic annotator for timestamps")

CLAIMED["C12"] = dict(cat="model_checking", ref="7 C12", note=CLI_NOTE + "; Close points are event instants (request arrival, OnTracks, k-th OnData, after the outcome) plus timer-driven Close; goroutines read from runtime.Stack at the moment Wait yields and for 200 ms afterwards",
  text="ClientLife.tla models the client's goroutines (run, primary downloader, stream downloader, stream processor, track processor), their rendezvous and the ctx.Done alternative of every blocking step, the routine pool and the single result; TLC checks exactly-one value, no goroutine left, no callback afterwards, error surfaced and termination (liveness) for every Close point x fault x OnTracks error, and refutes the weakened variants (start hand-off without ctx, error path without join); every scenario of the model is run on the real Client (fast and slow callbacks) and TLC validates the observations (ClientRun.tla); real outcomes are compared with the model's outcome sets; further scenarios outside the one-stream model: leading stream + rendition with Close / faults at every request and errors of one stream while the other waits for it (ClientLife2.tla is their design model, thorough tier), segments with more samples than the track queues hold, segments with more part tracks than the completion channel used to hold",
  technique="TLA+ model + TLC safety/liveness; model scenarios (Close point x fault) executed on the real Client; TLC trace validation")

CLAIMED["C13"] = dict(cat="fault_enumeration", ref="7 C13", note=CLI_NOTE + "; structure-aware content faults, not coverage-guided fuzzing of arbitrary bytes (DESIGN section 9); a client still pacing a sample (<= 10 s by design) at the end of the budget is not counted as wedged",
  text="a catalogue of content faults (generic truncation / garbage / duplication; playlist faults: huge or negative numbers, missing URIs, wrong playlist kind, bad byte ranges, unknown codecs, missing group; init faults: codecs without decoder as extra / leading / all tracks, time scale 0, extra / missing / duplicate / too many tracks; any tag or attribute the client relies on dropped from a first or a reloaded playlist; renditions in another container than the leading stream; segment faults: no leading-track data, undeclared traf, empty trun, zero / huge durations, base times and offsets, other container, unsupported MPEG-TS codecs, missing PMT, 20 s jumps) is applied at every response position of six stream layouts (MPEG-TS, fMP4 with permuted tracks, renditions in both containers, Low-Latency), with and without a later Close; a crash of the process, no outcome within the budget while nothing is being paced, a leaked goroutine or a second value are violations, judged by TLC on the recorded runs (ClientRun.tla)",
  technique="model-driven fault enumeration on the real Client; TLA+ monitor (ClientRun.tla) checked by TLC on the recorded runs; process-level crash detection")

CLAIMED["C09"] = dict(cat="model_checking", ref="7 C09", note="synthetic codecs with the unit identity in the payload (H264, VP9, AV1, AAC, Opus); muxer written in real time by one goroutine, client attached once three segments are listed plus a random delay; SegmentMinDuration >= 600 ms; Low-Latency runs use a wall clock linear in media time; one recorded finding (Low-Latency with TARGETDURATION 0) tolerated by signature",
  text="a real Muxer (three variants x track sets x codecs, wall clocks that drift and jump against the media clock, timestamps from negative to past the 33-bit wrap) is written in real time while a real Client reads it through an in-process transport (multivariant or media playlist entry); ClientMux.tla keeps per muxer track the units written and delivered and TLC checks on the recorded run: track list equal to what the muxer advertised (codec, clock rate, codec parameters, rendition name / language / default), byte identity, written-before-delivered, once and in order, no gaps (MPEG-TS, fMP4), DTS / PTS within one tick of written minus origin, AbsoluteTime within a millisecond of the wall clock written with the first unit of the segment plus the DTS distance (segment structure read back from the muxer), the client keeps up until the writer stops",
  technique="TLA+ monitor (ClientMux.tla) checked by TLC on traces recorded from a real Client reading a real Muxer; exact-arithmetic annotator")

PENDING = "check not built yet in this session (planned, see DESIGN.md section 7); will be claimed once its TLA+ model and conformance harness are committed"


def main():
    props = [json.loads(l) for l in open('/verif/properties.jsonl')]
    hooks = subprocess.run("git -C /repo log --format=%h --grep='^verif hooks' ", shell=True, capture_output=True, text=True).stdout.split()
    m = {
        "version": 1,
        "setup_cmd": "bin/setup",
        "hooks": {"guard": "verif", "enable": "go build -tags verif (harness module /verif/harness, replace => /repo)",
                  "baseline_off_cmd": "bin/baseline_off", "source_commits": hooks, "add_only": True},
        "engines": [{"name": "tlc", "path": "/usr/local/bin/tlc", "serves_properties": sorted(CLAIMED),
                     "kind_free_text": "TLA+ specifications in /verif/spec checked by TLC: exhaustive design checks, "
                                       "generation of scripts/schedules, validation of traces recorded from the real code"},
                    {"name": "apalache", "path": "/opt/veriftools/apalache/bin/apalache-mc", "serves_properties": ["C04", "C18"],
                     "kind_free_text": "inductive invariant of spec/Window.tla (window laws for histories of any length); "
                                       "auxiliary to the TLC checks of the same properties"},
                    {"name": "go race detector", "path": "go build -race", "serves_properties": ["C08"],
                     "kind_free_text": "memory-level data races on the schedules chosen by the TLA+ model (DESIGN section 9)"}],
        "checks": [], "not_applicable": [],
        "notes": "See DESIGN.md. bin/check <id> [--tier quick|thorough] [--replay file]. exit 0 held / 1 VIOLATION / 2 inconclusive.",
    }
    for p in props:
        i = p["id"]
        if i in CLAIMED:
            c = CLAIMED[i]
            m["checks"].append({
                "property_id": i,
                "quick_cmd": "bin/check %s --tier quick" % i,
                "thorough_cmd": "bin/check %s --tier thorough" % i,
                "evidence_file": "/verif/evidence/%s.json" % i,
                "replay_cmd_template": "bin/check %s --replay {path}" % i,
                "engine": "tlc",
                "level_claimed": {"category": c["cat"], "text": c["text"], "design_ref": c["ref"]},
                "level_note": c["note"], "technique": c["technique"]})
        else:
            m["not_applicable"].append({"property_id": i, "reason": PENDING})
    json.dump(m, open('/verif/MANIFEST.json', 'w'), indent=1)
    print("claimed:", sorted(CLAIMED), "hooks:", hooks)


if __name__ == "__main__":
    main()
