"""C10-C13 (+ end-to-end look-ahead of C20) - the HLS client against an in-process stub server.
(spec/ClientFetchOps.tla, ClientFetch.tla, ClientLife.tla, ClientRun.tla; harness clientdrv)"""
import json
import os
import random
import re
import shutil
import tempfile
import time
from concurrent.futures import ThreadPoolExecutor
from fractions import Fraction

import vlib

ASSUME = {
    "C10": [
        "streams are synthesised by the harness (H264 + AAC in MPEG-TS; H264 + AAC/Opus in fMP4) with the unit identity in the payload; "
        "one unit lasts 20 ms so that the client's real-time pacing costs ~20 ms per unit",
        "timestamp arithmetic beyond TLC's 32-bit integers (bases up to 2^40, the 33-bit circle) is evaluated exactly (Python integers / "
        "fractions) by the trace annotator, which adds error terms to each data line; TLC judges the structure and that every error term is 0",
        "tolerances: DTS/PTS within 1 tick of the exact rational value; AbsoluteTime within 2 ticks + 2 us",
    ],
    "C11": [
        "playlist histories are the behaviours of ClientFetch.tla (server window sliding by 0..k per poll, ENDLIST at any time); the stub "
        "serves version k at the k-th poll of a playlist and repeats the last one",
        "request arrival order at the stub is the client's issue order per stream (the transport is an in-process RoundTripper)",
    ],
    "C12": [
        "Close points are request arrival instants (Close is called from inside the transport before the response is produced), "
        "the OnTracks callback, a data callback, and after the outcome; faults are injected per request index",
        "goroutines are read from runtime.Stack filtered to gohlslib frames, polled for 200 ms after Wait yielded",
    ],
    "C13": [
        "structure-aware mutations of valid playlists / init / segments at every request position plus token-level playlist corruption; "
        "arbitrary-byte coverage-guided fuzzing is NOT done by this check (stated limit, DESIGN section 9)",
    ],
    "C20": [],
    "C09": [
        "the muxer is written in real time by one goroutine (steps of the C01 generators without parameter changes, constant frame rate); "
        "the client is attached once three segments are listed (earlier it legitimately refuses) plus a random delay",
        "SegmentMinDuration >= 600 ms so that TARGETDURATION >= 1; SegmentCount large enough that no segment expires during the run "
        "(the segment structure is read back from the muxer after the run)",
        "Low-Latency runs use a wall clock that is linear in media time (the date of an open segment is extrapolated by the client from "
        "the previous one); the other variants use drifting / jumping wall clocks",
        "tolerances as stated by the property: +-1 tick, 1 ms (+2 ticks) for AbsoluteTime; Low-Latency: + 250 us for the 10 us text "
        "resolution of the durations the client adds up to date a part",
    ],
}

T0 = 0  # abs times are logged in microseconds since the harness' t0


# ----------------------------------------------------------------------------------------------------------------
# scenario construction

def stream(container, tracks, versions, base, step, per=1, **kw):
    s = {"container": container, "tracks": tracks, "trackIds": kw.pop("trackIds", []), "versions": versions, "base": base, "step": step,
         "perSeg": per, "ptsOff": [], "frags": 0, "byteRange": False, "noStart": False, "query": "", "absUrl": False, "dateTime": False,
         "dtJump": 0, "name": "", "lang": "", "default": False, "segDurMs": 20 * per, "ll": False, "canSkip": False, "uriStyle": "", "hintRanges": False, "ausPerPES": 0, "segDelayMs": 0}
    s.update(kw)
    return s


def ver(ms, n, end=False, typ="", hint=0, wait=0):
    return {"ms": ms, "n": n, "end": end, "type": typ, "hint": hint, "wait": wait}


def scenario(entry, streams, tag, **kw):
    sc = {"entry": entry, "streams": streams, "faults": [], "closeReq": -1, "closeWhen": "", "closeTwice": False, "onTracksErr": False,
          "dirs": False, "blockData": 0, "closeData": 0, "closeAtMs": 0, "slowData": 0, "maxMs": 0, "tag": tag, "mut": "", "mutReq": 0,
          "mutS": 0, "mutKind": "", "mutNth": 0}
    sc.update(kw)
    return sc


H264 = {"codec": "h264", "scale": 90000, "rate": 0}


def aac(scale, rate=None):
    return {"codec": "aac", "scale": scale, "rate": rate or scale}


def opus(scale=48000):
    return {"codec": "opus", "scale": scale, "rate": 48000}


def step_of(tr, container):
    """ticks per 20 ms unit (AAC frames are 1024 samples: 21.33 ms at 48 kHz - the pacing difference is irrelevant)"""
    sc = 90000 if container == "ts" else tr["scale"]
    if tr["codec"] == "aac":
        return 1024 * sc // tr["rate"]
    return sc // 50


def fetch_histories(tier):
    """playlist histories = behaviours of ClientFetch.tla printed by TLC (simulation) as the client stops"""
    out = []
    for cfg, num in (("Gen_fetch_live.cfg", 400 if tier == "quick" else 20000), ("Gen_fetch_vod.cfg", 120 if tier == "quick" else 6000)):
        g = vlib.tlc("ClientFetch", cfg, timeout=600, quiet=True, workers=1, simulate="num=%d" % num, depth=40, tlcseed=vlib.seed())
        hs = vlib.hist_lines(g.out)
        if not hs:
            raise vlib.Inconclusive("no playlist histories generated by %s: %s" % (cfg, g.out[-1500:]))
        out += hs
    seen, uniq = set(), []
    for h in out:
        k = json.dumps(h, sort_keys=True)
        if k not in seen:
            seen.add(k)
            uniq.append(h)
    return uniq


def fetch_scenarios(hists, rnd, limit):
    """one stream per history, with URI / byte-range / container variety; some pairs become leading + rendition"""
    rnd.shuffle(hists)
    by_out = {}
    for h in hists:
        by_out.setdefault((h["phase"], h["errc"], h["vod"]), []).append(h)
    # round-robin over outcomes so that every kind of ending is exercised
    order = []
    lists = list(by_out.values())
    while lists and len(order) < limit:
        for lst in list(lists):
            if lst:
                order.append(lst.pop())
            else:
                lists.remove(lst)
    scs = []
    k = 0
    for h in order[:limit]:
        k += 1
        container = "fmp4" if h["fmp4"] else "ts"
        typ = "VOD" if h["vod"] else rnd.choice(["", "", "EVENT"])
        vs = [ver(v["ms"], v["n"], v["end"], typ) for v in h["versions"]]
        per = rnd.choice([1, 2])
        tracks = [H264] + ([aac(90000 if container == "ts" else 48000, 48000)] if rnd.random() < 0.5 else [])
        st = stream(container, tracks, vs, [900000 * (1 if t["codec"] == "h264" else 1) if container == "ts" or t["codec"] == "h264"
                                            else 480000 for t in tracks],
                    [step_of(t, container) for t in tracks], per,
                    query=rnd.choice(["", "", "tok=1"]), absUrl=rnd.random() < 0.3, byteRange=rnd.random() < 0.3)
        if st["byteRange"]:
            st["noStart"] = rnd.random() < 0.6
        dirs = rnd.random() < 0.4
        if dirs:
            # playlists and media in different directories: relative ("../media/x", "m/x"), absolute-path and absolute-URL references
            st["absUrl"] = False
            st["uriStyle"] = rnd.choice(["rel", "abspath", "absurl", "sub"])
        scs.append(scenario("media", [st], "fetch%d" % k, dirs=dirs))
    # leading + audio rendition evolving independently
    for i in range(0, min(len(order), limit) - 1, 7):
        a, b = order[i], order[i + 1]
        if a["fmp4"] != b["fmp4"] or a["vod"] != b["vod"]:
            continue
        container = "fmp4" if a["fmp4"] else "ts"
        typ = "VOD" if a["vod"] else ""
        s0 = stream(container, [H264], [ver(v["ms"], v["n"], v["end"], typ) for v in a["versions"]], [900000], [1800], 1)
        atr = aac(90000 if container == "ts" else 48000, 48000)
        s1 = stream(container, [atr], [ver(v["ms"], v["n"], v["end"], typ) for v in b["versions"]],
                    [900000 if container == "ts" else 480000], [step_of(atr, container)], 1, name="eng", lang="en", default=True,
                    query=rnd.choice(["", "tok=1"]))
        dirs = rnd.random() < 0.5
        if dirs:
            s0["uriStyle"], s1["uriStyle"] = rnd.choice(["rel", "abspath", "absurl", "sub"]), rnd.choice(["rel", "abspath", "absurl", "sub"])
        scs.append(scenario("multi", [s0, s1], "fetchmv%d" % i, dirs=dirs))
    # Low-Latency: hint of each successive playlist, _HLS_skip=YES iff CAN-SKIP-UNTIL
    for i in range(6 if limit < 200 else 200):
        h0 = rnd.randint(3, 9) * 2 + rnd.choice([1, 2])
        nver = rnd.randint(2, 5)
        vs = []
        for q in range(nver):
            h = h0 + q
            ms_n = (h - 1) // 2         # segments complete before the hinted part (PPS = 2)
            n = rnd.randint(1, min(4, ms_n))
            vs.append(ver(ms_n - n, n, False, "", h))
        vs.append(ver(vs[-1]["ms"], vs[-1]["n"], False, "", 0, wait=60))      # the hint disappears: the run ends
        tr = [H264] + ([opus()] if rnd.random() < 0.5 else [])
        st = stream("fmp4", tr, vs, [900000 if t["codec"] == "h264" else 480000 for t in tr], [step_of(t, "fmp4") for t in tr], 2,
                    ll=True, canSkip=rnd.random() < 0.5, query=rnd.choice(["", "tok=1"]), segDurMs=40, dateTime=rnd.random() < 0.5,
                    hintRanges=(i % 2 == 1))      # every other stream keeps its parts as byte ranges of one file
        dirs = rnd.random() < 0.4
        if dirs:
            st["uriStyle"] = rnd.choice(["rel", "abspath", "absurl", "sub"])
        scs.append(scenario("media", [st], "ll%d" % i, dirs=dirs))
    # Low-Latency leading stream + Low-Latency audio rendition, each with its own hint sequence
    for i in range(3 if limit < 200 else 30):
        def llvers(h0, k):
            out = []
            for q in range(k):
                h = h0 + q
                ms_n = (h - 1) // 2
                n = rnd.randint(1, min(4, ms_n))
                out.append(ver(ms_n - n, n, False, "", h))
            out.append(ver(out[-1]["ms"], out[-1]["n"], False, "", 0, wait=80))
            return out
        h0 = rnd.randint(4, 9) * 2 + 1
        s0 = stream("fmp4", [H264], llvers(h0, rnd.randint(2, 4)), [900000], [1800], 2, ll=True, canSkip=rnd.random() < 0.5, segDurMs=40,
                    hintRanges=rnd.random() < 0.5)
        s1 = stream("fmp4", [opus()], llvers(h0, rnd.randint(2, 4)), [480000], [960], 2, ll=True, canSkip=rnd.random() < 0.5, segDurMs=40,
                    name="eng", lang="en", default=True, query=rnd.choice(["", "tok=1"]), hintRanges=rnd.random() < 0.5)
        scs.append(scenario("multi", [s0, s1], "llmv%d" % i))
    return scs


def time_scenarios(rnd, count):
    """C10: synthesised streams over timestamp bases, time scales, track orders, B-frame offsets, fragments, byte ranges, date-times"""
    scs = []
    for k in range(count):
        if k % 8 == 7:
            # Low-Latency: parts fetched through the preload hint, one unit per part
            h0 = rnd.randint(3, 12) * 2 + rnd.choice([1, 2])
            vs = []
            for q in range(rnd.randint(3, 6)):
                h = h0 + q
                ms_n = (h - 1) // 2
                n = rnd.randint(1, min(4, ms_n))
                vs.append(ver(ms_n - n, n, False, "", h))
            vs.append(ver(vs[-1]["ms"], vs[-1]["n"], False, "", 0, wait=120))
            auds = [rnd.choice([aac(rnd.choice([48000, 44100, 32000, 90000]), rnd.choice([48000, 44100])), opus(rnd.choice([48000, 90000]))])
                    for _ in range(rnd.randint(0, 2))]
            tr = [H264] + auds
            order = list(range(len(tr)))
            rnd.shuffle(order)
            tr = [tr[i] for i in order]
            lead_base = rnd.choice([0, 90000 * 7 + 13, rnd.randint(0, 1 << 40), (1 << 40) - rnd.randint(0, 99)])
            bases = [lead_base if t["codec"] == "h264" else max(0, lead_base * t["scale"] // 90000 + rnd.choice([0, 1, -1]) * step_of(t, "fmp4")
                                                                + rnd.choice([0, 7, -5])) for t in tr]
            ids = list(range(1, len(tr) + 1))
            rnd.shuffle(ids)
            st = stream("fmp4", tr, vs, bases, [step_of(t, "fmp4") for t in tr], 2, ll=True, canSkip=rnd.random() < 0.5,
                        query=rnd.choice(["", "tok=1"]), segDurMs=40, dateTime=rnd.random() < 0.6, trackIds=ids,
                        hintRanges=rnd.random() < 0.5)
            scs.append(scenario("media", [st], "timell%d" % k))
            continue
        container = rnd.choice(["ts", "fmp4"])
        multi = rnd.random() < 0.35
        naud = rnd.randint(0, 3)
        per = rnd.choice([1, 2, 3])
        nseg = rnd.randint(3, 5)
        vod = rnd.random() < 0.5
        ms = rnd.randint(0, 4)
        typ = "VOD" if vod else ""
        vs = [ver(ms, nseg, True, typ)]
        off = rnd.choice([[], [], [3600, 7200, 0, 1800], [1800, 0], [0, 5400, 1800]])
        if container == "ts":
            base_s = rnd.choice([0, 1, 10, 3600, 95443 - 1, 95443, 47721])        # seconds; 2^33/90000 = 95443.7 s
            lead_base = base_s * 90000 + rnd.randint(0, 89999)
            if rnd.random() < 0.4:
                lead_base = (1 << 33) - rnd.randint(0, 3) * 1800 * per - rnd.randint(0, 1800)   # wrap inside the stream
        else:
            lead_base = rnd.choice([0, 1, 90000 * 7 + 13, rnd.randint(0, 1 << 40), (1 << 40) - rnd.randint(0, 99), rnd.randint(0, 1 << 33)])
        lead_t = lead_base  # in 90 kHz
        auds = []
        for a in range(naud):
            if container == "ts":
                auds.append(aac(90000, rnd.choice([48000, 44100])))
            else:
                sc = rnd.choice([48000, 44100, 90000, 32000])
                auds.append(rnd.choice([aac(sc, rnd.choice([48000, 44100])), opus(sc)]))

        # MPEG-TS: several audio access units per PES (the client reports one time per PES; a PES that starts before the origin is
        # dropped as a whole, so those streams keep their audio at or after the origin)
        grp = rnd.choice([0, 0, 2, 3]) if container == "ts" else 0

        def abase(tr):
            sc = 90000 if container == "ts" else tr["scale"]
            skew = rnd.choice([0, 0, 1, -1, 2]) * step_of(tr, container) + rnd.choice([0, 0, 7, -5])
            if grp > 1:
                skew = abs(skew)
            b = lead_t * sc // 90000 + skew
            return max(b, 0)
        common = dict(frags=rnd.choice([0, 0, 2, 3]) if container == "fmp4" else 0, byteRange=rnd.random() < 0.3, ausPerPES=grp,
                      query=rnd.choice(["", "", "tok=1"]), absUrl=rnd.random() < 0.2)
        dt = rnd.random() < 0.6
        if multi and naud > 0:
            s0 = stream(container, [H264], vs, [lead_base], [1800], per, ptsOff=off, dateTime=dt, **common)
            streams = [s0]
            for i, a in enumerate(auds):
                streams.append(stream(container, [a], vs, [abase(a)], [step_of(a, container)], per, name="aud%d" % i, lang=rnd.choice(["en", "it", ""]),
                                      default=i == 0, dateTime=dt, **common))
            scs.append(scenario("multi", streams, "time%d" % k))
        else:
            tracks = [H264] + auds
            order = list(range(len(tracks)))
            rnd.shuffle(order)                     # audio may be listed before video (init segment / PMT order); fMP4 track ids are permuted too
            tracks = [tracks[i] for i in order]
            ids = list(range(1, len(tracks) + 1))
            if container == "fmp4":
                rnd.shuffle(ids)
                if rnd.random() < 0.3:
                    ids = [i * 7 + 1 for i in ids]
            bases = [lead_base if t["codec"] == "h264" else abase(t) for t in tracks]
            s0 = stream(container, tracks, vs, bases, [step_of(t, container) for t in tracks], per, ptsOff=off, dateTime=dt,
                        dtJump=rnd.choice([0, 0, 5, 1000, -3]) if dt else 0, trackIds=ids if container == "fmp4" else [], **common)
            if s0["byteRange"]:
                s0["noStart"] = rnd.random() < 0.5
            scs.append(scenario("media", [s0], "time%d" % k))
    return scs


def fault_scenarios(binary, tier):
    """C13: every content fault of the harness' catalogue x every response position of four stream layouts, plus a late Close"""
    rc, out, _ = vlib.drive(binary, ["client-muts"], timeout=60)
    if rc != 0:
        raise vlib.Inconclusive("client-muts failed: " + out[-500:])
    muts = json.loads(out.strip().splitlines()[-1])
    vs = [ver(0, 3, True, "VOD")]
    a48 = aac(48000, 48000)
    layouts = {
        "ts": ("media", [stream("ts", [H264, aac(90000, 48000)], vs, [900000, 900000], [1800, 1920], 2, dateTime=True)]),
        "fmp4": ("media", [stream("fmp4", [H264, a48, opus()], vs, [900000, 480000, 480000], [1800, 1024, 960], 2, dateTime=True)]),
        "fmp4a": ("media", [stream("fmp4", [a48, H264], vs, [480000, 900000], [1024, 1800], 2, trackIds=[7, 3])]),
        "mv": ("multi", [stream("fmp4", [H264], vs, [900000], [1800], 2),
                         stream("fmp4", [a48], vs, [480000], [1024], 2, name="eng", lang="en", default=True)]),
        "mvts": ("multi", [stream("ts", [H264], vs, [900000], [1800], 2),
                           stream("ts", [aac(90000, 48000)], vs, [900000], [1920], 2, name="eng", lang="en", default=True)]),
        "ll": ("media", [stream("fmp4", [H264, opus()], [ver(2, 3, False, "", 11), ver(2, 3, False, "", 12), ver(3, 3, False, "", 13),
                                                        ver(3, 3, False, "", 0)], [900000, 480000], [1800, 960], 2, ll=True, segDurMs=40)]),
    }
    layouts["llr"] = ("media", [stream("fmp4", [H264, a48], [ver(2, 3, False, "", 11), ver(2, 3, False, "", 12), ver(3, 3, False, "", 13),
                                                             ver(3, 3, False, "", 0)], [900000, 480000], [1800, 1024], 2, ll=True,
                                       canSkip=True, hintRanges=True, segDurMs=40, dateTime=True)])
    scs = []
    # renditions in a different container than the leading stream (no content fault needed: "identity" leaves the bytes alone)
    for lname, (c0, c1) in (("mixA", ("fmp4", "ts")), ("mixB", ("ts", "fmp4"))):
        for cms in ([0] if tier == "quick" else [0, 20, 60]):
            s0 = stream(c0, [H264], vs, [900000], [1800], 2)
            a = aac(90000 if c1 == "ts" else 48000, 48000)
            s1 = stream(c1, [a], vs, [900000 if c1 == "ts" else 480000], [step_of(a, c1)], 2, name="eng", lang="en", default=True)
            scs.append(scenario("multi", [s0, s1], "mut-%s-identity-c%d" % (lname, cms), mut="identity", mutS=0, mutKind="seg", mutNth=0,
                                closeAtMs=cms, maxMs=1500))
    for lname, (entry, streams) in layouts.items():
        targets = []
        if entry == "multi":
            targets.append((-1, "multi", [0]))
        for j, st in enumerate(streams):
            targets.append((j, "pl", [0, 1] if not st["ll"] else [0, 1, 2]))
            if st["container"] == "fmp4":
                targets.append((j, "init", [0]))
            if st["ll"]:
                targets.append((j, "part", [0, 1]))
            else:
                targets.append((j, "seg", [0, 1, 2]))
        for (j, kind, nths) in targets:
            names = list(muts["any"])
            if kind in ("pl", "multi", "init"):
                names += muts[kind]
            else:
                names += muts["seg-ts" if streams[j]["container"] == "ts" else "seg-fmp4"]
            if tier == "quick" and kind in ("seg", "part"):
                nths = nths[:2]
            for nth in nths:
                for name in names:
                    closes = [0] if tier == "quick" else [0, 5, 15, 30, 45, 80]
                    if name in ("seg-extratraf", "init-unknown-extra", "seg-emptytrun", "ts-unsup-extra", "init-extra"):
                        closes = [0, 30]
                    for cms in closes:
                        scs.append(scenario(entry, json.loads(json.dumps(streams)), "mut-%s-s%d-%s%d-%s-c%d" % (lname, j, kind, nth, name, cms),
                                            mut=name, mutS=j, mutKind=kind, mutNth=nth, closeAtMs=cms, maxMs=1500))
    return scs


def lookahead_scenarios(rnd, tier):
    """C20 end to end: finished / live playlists with many segments, served instantly or slowly, while the application blocks
    in its first data callback or is slow in every callback: downloads never run more than 3 segments ahead of deliveries"""
    scs = []
    k = 0
    for container in ("ts", "fmp4"):
        for nseg in (6, 12) if tier == "quick" else (6, 12, 30):
            for end in (True, False):
                for block, slow in ((150, 0), (0, 30), (60, 10)):
                    k += 1
                    typ = rnd.choice(["VOD", ""]) if end else ""
                    if end:
                        vs = [ver(0, nseg, True, typ)]
                    else:
                        # a live window that keeps sliding by one segment per poll, then ends
                        vs = [ver(i, 5, False, "") for i in range(nseg)] + [ver(nseg, 5, True, "")]
                    tracks = [H264] + ([aac(90000 if container == "ts" else 48000, 48000)] if k % 2 else [])
                    st = stream(container, tracks, vs, [900000 if (container == "ts" or t["codec"] == "h264") else 480000 for t in tracks],
                                [step_of(t, container) for t in tracks], rnd.choice([1, 2]))
                    scs.append(scenario("media", [st], "la-%s-%d-%s-b%d-s%d" % (container, nseg, "end" if end else "live", block, slow),
                                        blockData=block, slowData=slow, maxMs=6000))
    return scs


def e2e_lookahead(binary, tier, v, work, rnd):
    """used by props/queue.py: runs the scenarios, validates C20_LookAhead, returns coverage"""
    scs = lookahead_scenarios(rnd, tier)
    trace, crashes = run_scenarios(binary, scs, work, "la")
    for sc, out in crashes:
        crash_violation(v, "C20", sc, out, "la")
    tc = validate("C20", trace, v, "la")
    nreq = sum(1 for ln in open(trace) if '"kind":"seg"' in ln)
    return {"end_to_end_scenarios": len(scs), "end_to_end_trace_lines": tc.lines, "end_to_end_segment_requests": nreq,
            "end_to_end_states": tc.states}


def life_scenarios(tier):
    """C12: every (Close point x fault x OnTracks error) scenario of ClientLife.tla with the outcomes the model allows"""
    allowed = {}
    design = {}
    for cfg in (("MC_life_fmp4_q.cfg", "MC_life_ts_q.cfg") if tier == "quick" else ("MC_life_fmp4.cfg", "MC_life_ts.cfg")):
        d = vlib.tlc("ClientLife", cfg, timeout=1800, quiet=True)
        if not d.ok():
            raise vlib.Inconclusive("design model %s did not pass: %s %s\n%s" % (cfg, d.kind, d.violated, d.out[-2000:]))
        design[cfg] = [d.distinct, d.generated]
        for h in vlib.hist_lines(d.out):
            k = (h["fmp4"], tuple(h["close"]), tuple(h["fault"]), h["tracksErr"])
            allowed.setdefault(k, set()).add(h["outcome"])
    for cfg in ("MC_life_weak_startNoSelect.cfg", "MC_life_weak_errorNoJoin.cfg", "MC_life_weak_fixedCap.cfg", "MC_life_weak_pushNoCtx.cfg"):
        d = vlib.tlc("ClientLife", cfg, timeout=900, quiet=True)
        if d.kind not in ("invariant", "temporal"):
            raise vlib.Inconclusive("weakened client life cycle %s was not refuted (%s)" % (cfg, d.kind))
        design[cfg] = "refuted: " + (d.violated or d.kind)
    if tier == "thorough":
        # leading stream + rendition (ClientLife2.tla): sequential hand-offs of the primary downloader, the leading time converter
        for cfg in ("MC_life2_fmp4.cfg", "MC_life2_ts.cfg"):
            d = vlib.tlc("ClientLife2", cfg, timeout=3600, quiet=True)
            if not d.ok():
                raise vlib.Inconclusive("design model %s did not pass: %s %s\n%s" % (cfg, d.kind, d.violated, d.out[-2000:]))
            design[cfg] = [d.distinct, d.generated]
        for cfg in ("MC_life2_weak_startNoSelect.cfg", "MC_life2_weak_leadNoCtx.cfg", "MC_life2_weak_errorNoJoin.cfg"):
            d = vlib.tlc("ClientLife2", cfg, timeout=1800, quiet=True)
            if d.kind not in ("invariant", "temporal"):
                raise vlib.Inconclusive("weakened two-stream life cycle %s was not refuted (%s)" % (cfg, d.kind))
            design[cfg] = "refuted: " + (d.violated or d.kind)
    scs = []
    combos = []
    for fmp4 in (True, False):
        maxreq = 5 if fmp4 else 4
        closes = [("none", 0), ("any", 0), ("tracks", 0), ("data", 1), ("data", 2), ("outcome", 0)] + [("req", k) for k in range(maxreq)]
        faults = [("none", 0)] + [(f, k) for f in ("status", "transport", "stall") for k in range(maxreq)]
        for c in closes:
            for f in faults:
                for terr in (False, True):
                    combos.append((fmp4, c, f, terr))
    for (fmp4, close, fault, terr) in combos:
        outs = allowed.get((fmp4, close, fault, terr), set())      # empty: the model never ends (stalled body, no Close)
        for slow in (0, 25):
            container = "fmp4" if fmp4 else "ts"
            st = stream(container, [H264], [ver(0, 2, True, "VOD")], [900000], [1800], 1)
            kw = {"maxMs": 700, "slowData": slow, "onTracksErr": terr}
            if fault[0] != "none":
                kw["faults"] = [{"req": fault[1], "kind": fault[0]}]
            if close[0] == "req":
                kw["closeReq"] = close[1]
            elif close[0] == "tracks":
                kw["closeWhen"] = "tracks"
            elif close[0] == "data":
                kw["closeData"] = close[1]
            elif close[0] == "outcome":
                kw["closeWhen"] = "eos"
            anys = [0]
            if close[0] == "any":
                anys = [1, 8, 22, 35, 50] if tier == "quick" else list(range(1, 90, 4))
            for ms in anys:
                k2 = dict(kw)
                if ms:
                    k2["closeAtMs"] = ms
                sc = scenario("media", [st], "life-%s-%s%d-%s%d-%d-%d-%d" % (container, close[0], close[1], fault[0], fault[1], terr, slow, ms), **k2)
                sc["modelOutcomes"] = sorted(outs)
                scs.append(sc)
    # leading stream + audio rendition (not in the model: judged by the ClientRun clauses only): request indices cover both streams
    k = 0
    for container in ("fmp4", "ts"):
        nreq = 9 if container == "fmp4" else 7
        closes = [("none", 0), ("tracks", 0), ("data", 1)] + [("req", i) for i in range(nreq)]
        faults = [("none", 0)] + [(f, i) for f in ("status", "stall") for i in range(nreq)]
        for c in closes:
            for f in faults:
                k += 1
                # without Close every fault position is always run (an error while a rendition waits for the leading stream);
                # the rest of the product is sampled in the quick tier
                if tier == "quick" and k % 4 != 0 and c[0] != "none":
                    continue
                atr = aac(90000 if container == "ts" else 48000, 48000)
                s0 = stream(container, [H264], [ver(0, 2, True, "VOD")], [900000], [1800], 1)
                s1 = stream(container, [atr], [ver(0, 2, True, "VOD")], [900000 if container == "ts" else 480000], [step_of(atr, container)], 1,
                            name="eng", lang="en", default=True)
                kw = {"maxMs": 700, "slowData": 10 if k % 3 == 0 else 0}
                if f[0] != "none":
                    kw["faults"] = [{"req": f[1], "kind": f[0]}]
                if c[0] == "req":
                    kw["closeReq"] = c[1]
                elif c[0] == "tracks":
                    kw["closeWhen"] = "tracks"
                elif c[0] == "data":
                    kw["closeData"] = c[1]
                scs.append(scenario("multi", [s0, s1], "life2-%s-%s%d-%s%d" % (container, c[0], c[1], f[0], f[1]), **kw))
    # an error of one stream while the OTHER one waits for it: the leading stream's first segment fails (late) while the rendition
    # already waits for the leading time converter, and the rendition's first segment fails while the leading stream streams
    for container in ("fmp4", "ts"):
        for victim, slow in ((0, 0), (0, 1), (1, 0), (1, 1)):
            for fk in ("status", "transport"):
                atr = aac(90000 if container == "ts" else 48000, 48000)
                s0 = stream(container, [H264], [ver(0, 3, True, "VOD")], [900000], [1800], 1, segDelayMs=40 if slow == 0 else 0)
                s1 = stream(container, [atr], [ver(0, 3, True, "VOD")], [900000 if container == "ts" else 480000], [step_of(atr, container)], 1,
                            name="eng", lang="en", default=True, segDelayMs=40 if slow == 1 else 0)
                sc = scenario("multi", [s0, s1], "life2x-%s-v%d-s%d-%s" % (container, victim, slow, fk), maxMs=900,
                              faults=[{"req": -1, "kind": fk, "on": "seg", "s": victim, "nth": 0}])
                scs.append(sc)
    # a stream that declares a track the client has no decoder for (legal on the wire): the supported tracks play to the end
    for trs in ([H264, {"codec": "lpcm", "scale": 48000, "rate": 48000}, aac(48000, 48000)], [{"codec": "ac3", "scale": 48000, "rate": 48000}, H264]):
        st = stream("fmp4", trs, [ver(0, 3, True, "VOD")], [900000 if t["codec"] == "h264" else 480000 for t in trs],
                    [1800 if t["codec"] == "h264" else 960 for t in trs], 2)
        scs.append(scenario("media", [st], "life-unsup-%s" % "+".join(t["codec"] for t in trs), maxMs=2500))
    # long segments: the hand-off of samples to the track processors (a queue of 100 entries in MPEG-TS, a rendezvous in fMP4) is
    # blocked while a sample is being paced; Close / an error of another track must still end the client (pushNoCtx in the model)
    for container in ("ts", "fmp4"):
        for ntr in (1, 2):
            for cms in (40, 90):
                tr = [H264] + ([aac(90000 if container == "ts" else 48000, 48000)] if ntr == 2 else [])
                st = stream(container, tr, [ver(0, 2, True, "VOD")], [900000] + ([900000 if container == "ts" else 480000] * (ntr - 1)),
                            [step_of(t, container) for t in tr], 130, frags=(13 if container == "fmp4" else 0))
                sc = scenario("media", [st], "life-longseg-%s-%d-c%d" % (container, ntr, cms), closeAtMs=cms, maxMs=1500)
                scs.append(sc)
    # the completion channel of the stream processor (TokenCap in the model): segments with many part tracks (fragments x tracks)
    for ntr, frags in ((4, 3), (2, 7), (3, 5)):
        tr = [H264] + [aac(48000, 48000)] * (ntr - 1)
        st = stream("fmp4", tr, [ver(0, 3, True, "VOD")], [900000] + [480000] * (ntr - 1), [1800] + [1024] * (ntr - 1), frags, frags=frags)
        sc = scenario("media", [st], "life-parttracks-%dx%d" % (ntr, frags), maxMs=2500)
        sc["modelOutcomes"] = ["eos"]
        scs.append(sc)
    return scs, design


# ----------------------------------------------------------------------------------------------------------------
# running

class Crash(Exception):
    def __init__(self, sc, out):
        self.sc, self.out = sc, out


def run_scenarios(binary, scs, work, tag, timeout=900):
    """runs the scenarios in parallel shards; returns (trace path, crashes[(scenario, output)])"""
    nsh = min(vlib.NCPU, max(1, len(scs) // 4))
    shards = [scs[i::nsh] for i in range(nsh)]

    def one(i):
        todo = list(shards[i])
        traces, crashes = [], []
        part = 0
        while todo:
            sp = os.path.join(work, "%s_s%d_%d.json" % (tag, i, part))
            tp = os.path.join(work, "%s_t%d_%d.ndjson" % (tag, i, part))
            mk = os.path.join(work, "%s_m%d_%d" % (tag, i, part))
            with open(sp, "w") as f:
                json.dump(todo, f)
            rc, out, dt = vlib.drive(binary, ["client-run", "-script", sp, "-out", tp, "-marker", mk], timeout=timeout)
            traces.append(tp)
            if rc == 0:
                break
            # the process died: the marker names the scenario in progress
            try:
                at = int(open(mk).read().strip())
            except Exception:
                raise vlib.Inconclusive("client-run failed without marker: " + out[-2000:])
            if "panic" not in out and "fatal error" not in out:
                raise vlib.Inconclusive("client-run failed (rc=%s): %s" % (rc, out[-2000:]))
            crashes.append((todo[at], out[-6000:]))
            todo = todo[at + 1:]
            part += 1
        return traces, crashes

    with ThreadPoolExecutor(max_workers=nsh) as ex:
        res = list(ex.map(one, range(nsh)))
    out_path = os.path.join(work, tag + ".ndjson")
    crashes = []
    with open(out_path, "w") as g:
        for traces, cr in res:
            crashes += cr
            for tp in traces:
                if os.path.exists(tp):
                    for run in complete_runs(tp):
                        for d in annotate(run):
                            g.write(json.dumps(d, separators=(",", ":")) + "\n")
    return out_path, crashes


def complete_runs(path):
    """runs (reset .. end) of a trace file; a run cut short by a crash is dropped (the crash is reported separately)"""
    cur = None
    with open(path) as f:
        for ln in f:
            try:
                d = json.loads(ln)
            except ValueError:
                break
            if d.get("ev") == "reset":
                cur = [d]
            elif cur is not None:
                cur.append(d)
                if d.get("ev") == "end":
                    yield cur
                    cur = None


# ----------------------------------------------------------------------------------------------------------------
# exact arithmetic: error terms of every delivery

def clip(x):
    return max(-10 ** 8, min(10 ** 8, int(x)))


def annotate(run):
    reset = run[0]
    sc = reset["sc"]
    streams = sc["streams"]
    tstream, ltrack = [], []
    for j, s in enumerate(streams):
        for ti in range(len(s["tracks"])):
            tstream.append(j)
            ltrack.append(ti)
    sc["nt"] = len(tstream)
    sc["tstream"] = tstream

    def scale(j, ti):
        return 90000 if streams[j]["container"] == "ts" else streams[j]["tracks"][ti]["scale"]

    def per(j):
        return 1 if streams[j]["ll"] else (streams[j]["perSeg"] or 1)

    s0 = streams[0]
    lead = next((i for i, t in enumerate(s0["tracks"]) if t["codec"] == "h264"), 0)
    ls = scale(0, lead)
    first_seg = {}
    for d in run:
        if d.get("ev") == "req" and d["kind"] in ("seg", "part") and d["fault"] == "" and d["s"] not in first_seg and d["id"] >= 0:
            first_seg[d["s"]] = d["id"]

    def first_n(j):
        return first_seg[j] - 1 if streams[j]["ll"] else first_seg[j] * per(j)

    def dts_of(j, ti, n):
        return streams[j]["base"][ti] + n * streams[j]["step"][ti]

    def off_of(j, ti, n):
        s = streams[j]
        if s["tracks"][ti]["codec"] == "h264" and s["ptsOff"]:
            return s["ptsOff"][n % len(s["ptsOff"])]
        return 0

    origin = dts_of(0, lead, first_n(0)) if 0 in first_seg else None

    def exact_dts(j, ti, n):            # Fraction, in the track's time scale
        return Fraction(dts_of(j, ti, n)) - Fraction(origin * scale(j, ti), ls)

    _su = {}

    def startup_sets(j, ti):
        return early_sets(j, ti, first_seg[j]) if j in first_seg else (set(), set())

    def early_sets(j, ti, m):
        """MPEG-TS, segment m of a multi-track playlist: unit indices of track ti that the demuxer emits (certainly, perhaps) before
        the first leading-track unit of that segment (a PES is emitted when the next PES of its track starts, or at the end)"""
        if (j, ti, m) in _su:
            return _su[(j, ti, m)]
        res = (set(), set())
        st = streams[j]
        if st["container"] == "ts" and len(st["tracks"]) > 1 and not st["ll"]:
            ld = next((i for i, t in enumerate(st["tracks"]) if t["codec"] == "h264"), 0)
            if ti != ld:
                p = per(j)
                items = []
                for t2 in range(len(st["tracks"])):
                    for kk in range(p):
                        nn = m * p + kk
                        items.append((dts_of(j, t2, nn), 0 if st["tracks"][t2]["codec"] == "h264" else 1, t2, nn))
                items.sort(key=lambda x: (x[0], x[1]))          # stable: ties keep track order, video first
                grp = max(1, st.get("ausPerPES", 0))
                pes = []                                          # (track, [units], start position)
                i = 0
                while i < len(items):
                    t2 = items[i][2]
                    us = [items[i][3]]
                    if st["tracks"][t2]["codec"] != "h264":
                        while len(us) < grp and i + 1 < len(items) and items[i + 1][2] == t2:
                            i += 1
                            us.append(items[i][3])
                    pes.append((t2, us, len(pes)))
                    i += 1
                INF = 10 ** 9

                def emit_pos(idx):
                    for q in range(idx + 1, len(pes)):
                        if pes[q][0] == pes[idx][0]:
                            return q
                    return INF
                lead_first = next((q for q in range(len(pes)) if pes[q][0] == ld), None)
                if lead_first is not None:
                    ev = emit_pos(lead_first)
                    for q in range(len(pes)):
                        if pes[q][0] != ti:
                            continue
                        e = emit_pos(q)
                        if e < ev or (e == ev and e != INF):
                            res[0].update(pes[q][1])
                        elif e == INF and ev == INF:
                            res[1].update(pes[q][1])
        _su[(j, ti, m)] = res
        return res

    exp_tracks = []
    for j, s in enumerate(streams):
        for ti, t in enumerate(s["tracks"]):
            rend = j > 0 and s["container"] == "fmp4"
            exp_tracks.append({"codec": t["codec"], "rate": scale(j, ti), "name": s["name"] if rend else "",
                               "lang": s["lang"] if rend else "", "def": 1 if (rend and s["default"]) else 0})
    wf = sc["mut"] == ""
    for d in run:
        if d.get("ev") == "tracks":
            d["exp"] = exp_tracks
        if d.get("ev") != "data":
            continue
        t = d["t"]
        d.update({"s": -1, "lt": 0, "first": 0, "neg": 0, "dd": 0, "dp": 0, "da": 0, "stale": 0, "startup": 0})
        if not wf or t < 1 or t > len(tstream) or origin is None or d["idok"] != 1:
            if wf:
                d["dd"] = 1       # a delivery that cannot be attributed to a written unit
            d["s"] = tstream[t - 1] if 1 <= t <= len(tstream) else 0
            continue
        j, ti = tstream[t - 1], ltrack[t - 1]
        d["s"], d["lt"] = j, ti + 1
        if j not in first_seg:
            d["dd"] = 2
            continue
        n = d["id"] - 1
        S = scale(j, ti)
        ex = exact_dts(j, ti, n)
        o = off_of(j, ti, n)
        own_time = d.get("sub", 0) == 0      # later units of a multi-unit callback carry the time of the first one
        err = Fraction(d["dts"]) - ex
        d["dd"] = 0 if (abs(err) < 1 or not own_time) else clip(round(err)) or 1
        d["dp"] = clip((d["pts"] - d["dts"]) - o) if own_time else 0
        d["neg"] = 1 if ex + o <= -1 else 0
        # first deliverable unit of the track: the smallest n >= first_n with exact pts >= 0 (a pts in (-1, 0) may go either way);
        # MPEG-TS, single playlist: units the demuxer emits before the first leading-track unit are dropped whatever their time
        # (known finding), units flushed together with it at the end of the segment may go either way
        dropped, unsure = startup_sets(j, ti)
        k = first_n(j)
        cands = set()
        startup = 0
        while True:
            pts_k = exact_dts(j, ti, k) + off_of(j, ti, k)
            if pts_k <= -1:
                k += 1
                continue
            if k in dropped:
                startup += 1
                k += 1
                continue
            cands.add(k)
            if pts_k < 0 or k in unsure:
                k += 1
                if k > first_n(j) + 64:
                    break
                continue
            break
        d["first"] = 1 if n in cands else 0
        d["startup"] = startup if (d["first"] == 1 and n == max(cands) and startup > 0) or (n in cands and any(x in dropped for x in range(first_n(j), n))) else 0
        # AbsoluteTime
        if d["abs"] >= 0 and s0["dateTime"] and own_time:
            if j == 0 and not s0["ll"]:
                m = n // per(0)
                pdt_us = (m * s0["segDurMs"] + m * s0["dtJump"]) * 1000
                anchor = Fraction(dts_of(0, lead, m * per(0)), ls)
                want = pdt_us + (Fraction(dts_of(j, ti, n), S) - anchor) * 1000000
                # MPEG-TS: the anchor of a segment is taken when its first leading-track unit is READ; a unit of another track
                # that is stored before it is still dated with the previous segment's anchor (known finding, DESIGN section 11)
                es = early_sets(0, ti, m)
                if s0["container"] == "ts" and m > first_seg[0] and ti != lead and (n in es[0] or n in es[1]):
                    pm = m - 1
                    pwant = (pm * s0["segDurMs"] + pm * s0["dtJump"]) * 1000 + \
                        (Fraction(dts_of(j, ti, n), S) - Fraction(dts_of(0, lead, pm * per(0)), ls)) * 1000000
                    if abs(d["abs"] - want) > Fraction(2 * 1000000, S) + 2 and abs(d["abs"] - pwant) <= Fraction(2 * 1000000, S) + 2:
                        d["stale"] = 1
            elif s0["dtJump"] == 0:
                if s0["ll"]:
                    # date of part p = p * part duration (segments and parts are laid out linearly from 0)
                    p0 = first_seg[0]
                    pdt_us = (p0 - 1) * (s0["segDurMs"] * 1000 // 2)
                else:
                    pdt_us = first_seg[0] * s0["segDurMs"] * 1000
                want = pdt_us + (Fraction(dts_of(j, ti, n), S) - Fraction(origin, ls)) * 1000000
            else:
                want = None
            if want is not None:
                tol = Fraction(2 * 1000000, S) + 2
                e = d["abs"] - want
                d["da"] = 0 if abs(e) <= tol else clip(round(e)) or 1
    return run


# ----------------------------------------------------------------------------------------------------------------
# C09: the real Client reading the real Muxer

E2E_TRACKS = {
    "mpegts": [["h264"], ["h264", "aac"], ["aac"], ["aac", "h264"]],
    "fmp4": [["V"], ["V", "aac"], ["V", "opus"], ["aac"], ["opus"], ["V", "aac", "opus"], ["aac", "V"], ["aac", "aac"]],
    "ll": [["V"], ["V", "aac"], ["V", "opus"], ["aac"], ["opus"], ["V", "aac", "opus"], ["aac", "V"], ["opus", "aac"]],
}


def e2e_scenarios(rnd, tier):
    from props import muxgen
    scs = []
    reps = 1 if tier == "quick" else 16
    k = 0
    for rep in range(reps):
        for variant in ("mpegts", "fmp4", "ll"):
            for tr in E2E_TRACKS[variant]:
                k += 1
                cfg = muxgen.make_cfg(rnd, variant, tracks=list(tr), seg_min_ms=rnd.choice([600, 700, 900]), part_min_ms=rnd.choice([100, 150, 200]),
                                      seg_count=40, disk=False, query="")
                for t in cfg["tracks"]:
                    if t["codec"] in ("aac", "opus") and "name" not in t and rnd.random() < 0.5:
                        t["name"], t["lang"] = "n%d" % k, rnd.choice(["en", "de", "it"])
                    if t["codec"] in ("aac", "opus") and rnd.random() < 0.3 and not any(x.get("def") for x in cfg["tracks"]):
                        t["def"] = True
                audio_only = all(t["codec"] in ("aac", "opus") for t in cfg["tracks"])
                if variant == "mpegts":
                    start = rnd.choice([0, 1, 37, 1000, 95443 - 2])       # the last one wraps the 33-bit clock during the run
                else:
                    start = rnd.choice([0, -3, 5, 1234.5, 3600])
                steps = muxgen.gen_steps(rnd, cfg, 2500 if (variant == "mpegts" and audio_only) else 900, start_s=start, irregular=False, gop=rnd.choice([10, 15]), changes=0, vdur=3000)
                if variant == "mpegts" and audio_only:
                    # audio-only MPEG-TS segments are cut every 100 Write calls at the earliest: one access unit per call at
                    # 44.1 / 48 kHz keeps a segment near 2.2 s
                    cfg["tracks"][0]["rate"] = rnd.choice([44100, 48000])
                    steps = [{"t": 0, "dts": int(start * cfg["tracks"][0]["rate"]) + 1024 * i, "ra": 1, "ps": 0, "size": rnd.randint(6, 60), "n": 1}
                             for i in range(700)]
                tmin = min(st_["dts"] / muxgen.rate_of(cfg["tracks"][st_["t"]]) for st_ in steps)
                total = 5.0 if tier == "quick" else rnd.choice([5.0, 7.0])
                if variant == "mpegts" and audio_only:
                    total = 12.0
                steps = [st_ for st_ in steps if st_["dts"] / muxgen.rate_of(cfg["tracks"][st_["t"]]) - tmin <= total]
                linear = variant == "ll"
                scs.append({"cfg": cfg, "steps": steps, "entry": "media" if (k % 4 == 0) else "multi",
                            "attachMs": rnd.choice([0, 30, 120, 300]),
                            "driftPPM": 0 if linear else rnd.choice([0, 8000, -5000, 20000]),
                            "jumpMs": 0 if linear else rnd.choice([0, 7, -4, 40]), "jumpEach": 500,
                            "tailMs": 500, "tag": "e2e-%s-%s-%d" % (variant, "+".join(t["codec"] for t in cfg["tracks"]), k)})
    # several audio renditions with the DEFAULT flag on a later one / audio-only with two renditions
    for variant in ("fmp4", "ll"):
        for trs, defidx in ((["h264", "aac", "opus"], 2), (["aac", "aac"], 1), (["h264", "aac", "aac"], 2)):
            cfg = muxgen.make_cfg(rnd, variant, tracks=list(trs), seg_min_ms=700, part_min_ms=150, seg_count=40, disk=False, query="")
            for ti, t in enumerate(cfg["tracks"]):
                t.pop("def", None)
                if t["codec"] in ("aac", "opus"):
                    t["name"], t["lang"] = "r%d" % ti, ["en", "de", "it"][ti % 3]
            cfg["tracks"][defidx]["def"] = True
            steps = muxgen.gen_steps(rnd, cfg, 900, start_s=rnd.choice([0, 5]), irregular=False, gop=10, changes=0, vdur=3000)
            tmin = min(st_["dts"] / muxgen.rate_of(cfg["tracks"][st_["t"]]) for st_ in steps)
            steps = [st_ for st_ in steps if st_["dts"] / muxgen.rate_of(cfg["tracks"][st_["t"]]) - tmin <= 4.5]
            scs.append({"cfg": cfg, "steps": steps, "entry": "multi", "attachMs": 50, "driftPPM": 0, "jumpMs": 0, "jumpEach": 500, "tailMs": 400,
                        "tag": "e2e-%s-def%d-%s" % (variant, defidx, "+".join(trs))})
    # sub-second segments in Low-Latency mode (repaired defect: TARGETDURATION 0 -> CAN-SKIP-UNTIL 0 -> delta update skips everything)
    cfg = muxgen.make_cfg(rnd, "ll", tracks=["h264", "aac"], seg_min_ms=200, part_min_ms=50, seg_count=40, disk=False, query="")
    steps = muxgen.gen_steps(rnd, cfg, 600, start_s=0, irregular=False, gop=5, changes=0, vdur=3000)
    tmin = min(st_["dts"] / muxgen.rate_of(cfg["tracks"][st_["t"]]) for st_ in steps)
    steps = [st_ for st_ in steps if st_["dts"] / muxgen.rate_of(cfg["tracks"][st_["t"]]) - tmin <= 3.0]
    scs.append({"cfg": cfg, "steps": steps, "entry": "multi", "attachMs": 0, "driftPPM": 0, "jumpMs": 0, "jumpEach": 500, "tailMs": 300,
                "tag": "e2e-ll-subsecond"})
    scs.sort(key=lambda sc: -len(sc["steps"]))
    return scs


def foreign_anchor_finding(trace, v, want_ts):
    run, hit = [], None
    with open(trace) as f:
        for ln in f:
            if '"ev":"reset"' in ln:
                run = []
            run.append(ln)
            if '"ev":"end"' in ln and any('"foreign":1' in x for x in run) and (want_ts == ('"variant":"mpegts"' in run[0])):
                hit = run
                break
    if not hit:
        return 0
    os.makedirs(vlib.REPLAYS, exist_ok=True)
    rp = os.path.join(vlib.REPLAYS, "C09-%s-anchor.ndjson" % ("stale" if want_ts else "foreign"))
    with open(rp, "w") as f:
        f.writelines(hit)
    r, _ = vlib.validate_trace("ClientMux", cfg_c09(strict=True), rp)
    if r.kind == "invariant":
        if '"variant":"mpegts"' in hit[0]:
            v.violation("AbsoluteTime of an MPEG-TS unit whose DTS precedes the first leading-track unit of its segment is computed from "
                        "the previous segment's date-time", rp, signature="ts-early-unit-stale-anchor")
        else:
            v.violation("AbsoluteTime of a unit of an audio rendition is computed from the date-time of whichever segment the leading "
                        "stream processed last, not from that of the unit's own segment", rp, signature="rendition-foreign-anchor")
    return 1


def run_e2e(binary, scs, work, tag):
    nsh = min(vlib.NCPU, len(scs))
    shards = [scs[i::nsh] for i in range(nsh)]

    def one(i):
        sp = os.path.join(work, "%s_s%d.json" % (tag, i))
        tp = os.path.join(work, "%s_t%d.ndjson" % (tag, i))
        with open(sp, "w") as f:
            json.dump(shards[i], f)
        rc, out, dt = vlib.drive(binary, ["e2e-run", "-script", sp, "-out", tp], timeout=1800)
        return rc, out, tp

    with ThreadPoolExecutor(max_workers=nsh) as ex:
        res = list(ex.map(one, range(nsh)))
    out_path = os.path.join(work, tag + ".ndjson")
    crashes = []
    with open(out_path, "w") as g:
        for rc, out, tp in res:
            if rc != 0:
                if "panic" in out or "fatal error" in out:
                    crashes.append(out[-6000:])
                else:
                    raise vlib.Inconclusive("e2e-run failed: " + out[-2000:])
            if os.path.exists(tp):
                for run in complete_runs(tp):
                    for d in annotate_e2e(run):
                        g.write(json.dumps(d, separators=(",", ":")) + "\n")
    return out_path, crashes


def annotate_e2e(run):
    reset = run[0]
    if any(d["ev"] == "harnesserr" for d in run):
        vlib.log("[e2e] harness error in %s: %s" % (reset["sc"].get("tag"), [d.get("msg") for d in run if d["ev"] == "harnesserr"]))
        return run
    variant = reset["variant"]
    tracks = reset["tracks"]
    nt = len(tracks)
    lead = reset["lead"]
    lead_stream = reset["leadStream"]
    entry = reset["sc"].get("entry", "multi")
    w = {}
    segs = {}
    mv = None
    widx = {}
    for d in run:
        if d["ev"] == "wr" and d["ok"] == 1:
            w[(d["t"], d["id"])] = (d["dts"], d["ntp"])
            widx[(d["t"], d["id"])] = len(widx)
        elif d["ev"] == "sg":
            segs.setdefault(d["s"], {})[d["msn"]] = {u["t"]: (u["lo"], u["hi"]) for u in d["u"]}
        elif d["ev"] == "mv":
            mv = d

    def stream_of(t):
        return 1 if variant == "mpegts" else t

    def crate(t):
        return 90000 if variant == "mpegts" else tracks[t - 1]["rate"]

    # expected client tracks: the leading stream first, then the audio renditions in the order advertised
    order = []
    if variant == "mpegts":
        order = [(t, "", "", 0) for t in range(1, nt + 1)]
    else:
        order = [(lead, "", "", 0)]
        if entry == "multi" and mv is not None:
            for rd in mv["renditions"]:
                if not rd["uri"]:
                    continue
                sid = rd["uri"].split("_stream")[0]
                digits = "".join(c for c in sid if c.isdigit())
                if digits:
                    t = int(digits)
                    # the default flag is judged against the muxer's configuration (the marked track, else the first audio track),
                    # name and language against what the muxer advertised (it generates a name when none is configured)
                    marked = any(x["def"] for x in tracks)
                    first_audio = next((i + 1 for i, x in enumerate(tracks) if x["kind"] == "a"), 0)
                    want_def = tracks[t - 1]["def"] if marked else (1 if t == first_audio else 0)
                    order.append((t, rd["name"], rd["lang"], want_def))
    exp = [{"codec": tracks[t - 1]["codec"], "rate": crate(t), "name": n, "lang": lg, "def": df, "params": 1} for (t, n, lg, df) in order]
    emt = [t for (t, _, _, _) in order]
    origin = None
    for d in run:
        if d["ev"] == "data" and d["mt"] == lead and (lead, d["id"]) in w:
            origin = w[(lead, d["id"])][0]
            break
    rl = tracks[lead - 1]["rate"]
    unchecked_abs = 0
    for d in run:
        if d["ev"] == "tracks":
            if variant == "mpegts":
                for x in d["list"]:
                    x["params"] = 1          # codec parameters are claimed for the fMP4 variants only
            d["exp"] = exp
        elif d["ev"] == "data":
            d.update({"emt": 0, "dd": 0, "dp": 0, "da": 0, "foreign": 0})
            ct = d["t"]
            if 1 <= ct <= len(emt):
                d["emt"] = emt[ct - 1]
            key = (d["mt"], d["id"])
            if key not in w or origin is None:
                d["dd"] = 1
                continue
            if d.get("sub", 0) > 0:
                continue        # not the first unit of its callback: the client reports no time of its own for it
            t = d["mt"]
            rt = tracks[t - 1]["rate"]
            rc = crate(t)
            wd, wn = w[key]
            exact = Fraction(wd * rc, rt) - Fraction(origin * rc, rl)
            err = Fraction(d["dts"]) - exact
            d["dd"] = 0 if abs(err) <= 1 else (clip(round(err)) or 1)
            d["dp"] = clip(d["pts"] - d["dts"])
            if d["abs"] >= 0:
                msn = None
                for m, per in segs.get(stream_of(t), {}).items():
                    if t in per and per[t][0] <= d["id"] <= per[t][1]:
                        msn = m
                        break
                anchor = None
                if msn is not None:
                    lo = segs.get(lead_stream, {}).get(msn, {}).get(lead)
                    if lo and (lead, lo[0]) in w:
                        anchor = w[(lead, lo[0])]
                if anchor is None:
                    unchecked_abs += 1
                else:
                    want = anchor[1] + (Fraction(wd, rt) - Fraction(anchor[0], rl)) * 1000000
                    e = d["abs"] - want
                    tol = 1000 + Fraction(2 * 1000000, rt) + 2
                    if variant == "ll":
                        # the date of a part is extrapolated from the previous segment's date-time (1 ms text resolution) plus the
                        # listed durations of that segment and of the parts before it (10 us text resolution each)
                        tol += 250
                    d["da"] = 0 if abs(e) <= tol else (clip(round(e)) or 1)
                    # MPEG-TS: position in the byte stream = order of the Write calls
                    early = True
                    if variant == "mpegts" and msn is not None:
                        lo_hi = segs.get(lead_stream, {}).get(msn, {}).get(lead)
                        if lo_hi and (lead, lo_hi[0] + 1) in widx:
                            early = widx[key] < widx[(lead, lo_hi[0] + 1)]
                    if d["da"] != 0 and t != lead and early:
                        # fMP4: the client dates rendition units with the anchor of whichever segment the leading stream processed
                        # last; MPEG-TS: the anchor moves when the demuxer EMITS the first leading-track unit of the segment, which
                        # is when the second one starts: units of other tracks WRITTEN before the second leading-track unit of the
                        # segment may still be dated with the previous segment's anchor
                        for m2, per2 in segs.get(lead_stream, {}).items():
                            lo2 = per2.get(lead)
                            if lo2 and (lead, lo2[0]) in w:
                                a2 = w[(lead, lo2[0])]
                                want2 = a2[1] + (Fraction(wd, rt) - Fraction(a2[0], rl)) * 1000000
                                if abs(d["abs"] - want2) <= tol:
                                    d["foreign"] = 1
                                    break
        elif d["ev"] == "wait":
            es = d["err"]
            d["errc"] = "terminated" if es == "terminated" else "missing" if "next segment not found" in es else "other"
            d["lltd0"] = 0
            d["expd"] = [1 if t in emt else 0 for t in range(1, nt + 1)]
            d["uncheckedAbs"] = unchecked_abs
    return run


# ----------------------------------------------------------------------------------------------------------------

INVS = {"C10": "C10_Delivery", "C11": "C11_Fetching", "C12": "C12_Termination", "C13": "C13_Robustness", "C20": "C20_LookAhead"}


def cfg_for(pid, strict=False):
    name = "Trace_client_%s%s.cfg" % (pid, "_strict" if strict else "")
    with open(os.path.join(vlib.SPEC, name), "w") as f:
        f.write("SPECIFICATION TraceSpec\nCONSTANTS\n  InitialDistance = 3\n  MaxDistance = 5\n  Variant = \"ok\"\n  Want = {\"%s\"}\n"
                "  TolerateStaleAnchor = %s\n"
                "INVARIANTS %s\nPOSTCONDITION Post\nCHECK_DEADLOCK FALSE\n" % (pid.lower(), "FALSE" if strict else "TRUE", INVS[pid]))
    return name


def stale_anchor_finding(pid, trace, v):
    """the tolerated deviations are reported as the recorded findings, after TLC (strict constants) confirms each on one run"""
    found = 0
    for marker, sig, what, fname in (
            ('"stale":1', "ts-early-unit-stale-anchor",
             "AbsoluteTime of an MPEG-TS unit that the demuxer emits before the first leading-track unit of its segment is computed from the "
             "previous segment's EXT-X-PROGRAM-DATE-TIME (visible when date-times are not linear in media time)", "stale-anchor"),
            ('"startup":', "ts-startup-units-dropped",
             "MPEG-TS client: units of non-leading tracks that the demuxer emits before the first leading-track unit of the stream are "
             "dropped although their time is not before the origin", "startup-drop")):
        run, hit = [], None
        with open(trace) as f:
            for ln in f:
                if '"ev":"reset"' in ln:
                    run = []
                run.append(ln)
                if '"ev":"end"' in ln:
                    if marker == '"startup":':
                        ok = any(re.search(r'"startup":[1-9]', x) for x in run)
                    else:
                        ok = any(marker in x for x in run)
                    if ok:
                        hit = run
                        break
        if not hit:
            continue
        os.makedirs(vlib.REPLAYS, exist_ok=True)
        rp = os.path.join(vlib.REPLAYS, "%s-%s.ndjson" % (pid, fname))
        with open(rp, "w") as f:
            f.writelines(hit)
        r, _ = vlib.validate_trace("ClientRun", cfg_for(pid, strict=True), rp)
        if r.kind == "invariant":
            v.violation(what, rp, signature=sig)
            found += 1
    return found


def why_of(r):
    m = re.search(r'why = "([^"]*)"', r) if isinstance(r, str) else None
    return m.group(1) if m else ""


def validate(pid, trace, v, tag):
    """TLC over the annotated trace; returns TraceCheck"""
    tc = vlib.validate_trace_parallel("ClientRun", cfg_for(pid), trace, pid, tag=tag, timeout=1200)
    for inv, rp, detail in tc.failures:
        wy, scn = last_clause(rp, pid)
        v.violation("%s: clause %s fails on a run of the real client (%s) scenario=%s" % (inv, wy, detail, scn), rp,
                    signature="%s:%s" % (wy, scn))
    if tc.incomplete:
        raise vlib.Inconclusive("client trace not consumed:\n" + "\n".join(tc.incomplete)[:3000])
    return tc


def last_clause(replay, pid):
    """re-validate the cut replay alone to read `why` from the violating state"""
    try:
        r, _ = vlib.validate_trace("ClientRun", cfg_for(pid), replay)
        wy = r.last_state.get("why", "").strip('"') or why_of(r.out)
        tag = json.loads(open(replay).readline())["sc"]["tag"]
        return wy, tag
    except Exception:
        return "?", "?"


def crash_violation(v, pid, sc, out, tag):
    os.makedirs(vlib.REPLAYS, exist_ok=True)
    rp = os.path.join(vlib.REPLAYS, "%s-seed%d-crash-%s.json" % (pid, vlib.seed(), sc.get("tag", tag)))
    with open(rp, "w") as f:
        json.dump([sc], f)
    m = re.search(r"(panic: [^\n]*)", out)
    where = re.search(r"(gohlslib/v2\.[^\n]*)\n\s*(/repo/[^\s]*)", out)
    v.violation("the client crashed the process: %s at %s (scenario %s)" % (m.group(1) if m else "fatal", where.group(2) if where else "?",
                                                                          sc.get("tag")), rp,
                signature="crash:%s" % (where.group(2) if where else "?"))


def cfg_c09(strict=False):
    name = "Trace_clientmux%s.cfg" % ("_strict" if strict else "")
    with open(os.path.join(vlib.SPEC, name), "w") as f:
        f.write("SPECIFICATION TraceSpec\nCONSTANTS\n  TolerateForeignAnchor = %s\nINVARIANTS C09_Reproduces\nPOSTCONDITION Post\n"
                "CHECK_DEADLOCK FALSE\n" % ("FALSE" if strict else "TRUE"))
    return name


def validate_c09(trace, v, tag):
    tc = vlib.validate_trace_parallel("ClientMux", cfg_c09(), trace, "C09", tag=tag, timeout=1200)
    for inv, rp, detail in tc.failures:
        r, _ = vlib.validate_trace("ClientMux", cfg_c09(), rp)
        wy = r.last_state.get("why", "").strip('"')
        try:
            scn = json.loads(open(rp).readline())["sc"]["tag"]
        except Exception:
            scn = "?"
        v.violation("C09_Reproduces: clause %s fails on a run of the real Client against the real Muxer (%s) scenario=%s" % (wy, detail, scn), rp,
                    signature="%s:%s" % (wy, scn))
    if tc.incomplete:
        raise vlib.Inconclusive("e2e trace not consumed:\n" + "\n".join(tc.incomplete)[:3000])
    return tc


def run_c09(binary, tier, v, work, rnd, t0):
    scs = e2e_scenarios(rnd, tier)
    trace, crashes = run_e2e(binary, scs, work, "e2e")
    for out in crashes:
        os.makedirs(vlib.REPLAYS, exist_ok=True)
        rp = os.path.join(vlib.REPLAYS, "C09-seed%d-crash.txt" % vlib.seed())
        open(rp, "w").write(out)
        v.violation("the process crashed while a Client was reading a Muxer: " + (re.search(r"(panic: [^\n]*)", out) or [0, "fatal"])[1], rp)
    tc = validate_c09(trace, v, "e2e")
    foreign = foreign_anchor_finding(trace, v, False) + foreign_anchor_finding(trace, v, True)
    ndata = nwr = herr = 0
    ends = {}
    samples = []
    with open(trace) as f:
        for ln in f:
            if '"ev":"data"' in ln:
                ndata += 1
            elif '"ev":"wr"' in ln:
                nwr += 1
            elif '"ev":"harnesserr"' in ln:
                herr += 1
            elif '"ev":"wait"' in ln:
                d = json.loads(ln)
                ends[d["errc"]] = ends.get(d["errc"], 0) + 1
                if len(samples) < 3:
                    samples.append(d)
    if herr:
        raise vlib.Inconclusive("%d end-to-end runs failed in the harness" % herr)
    cov = {"states": tc.states, "transitions": tc.lines, "traces_validated_against_impl": tc.traces, "scenarios": len(scs),
           "units_written": nwr, "units_delivered": ndata, "endings": ends, "foreign_anchor_observed": foreign,  "exhaustive": False, "samples": samples,
           "variants": sorted(set(sc["cfg"]["variant"] for sc in scs)),
           "track_sets": sorted(set("+".join(t["codec"] for t in sc["cfg"]["tracks"]) for sc in scs))}
    rc = v.finish()
    vlib.write_evidence("C09", tier, "model_checking", cov, ASSUME["C09"], time.time() - t0, len(v.violations))
    return rc


def run(pid, tier, replay):
    t0 = time.time()
    v = vlib.Verdict(pid)
    binary = vlib.build_harness()
    work = tempfile.mkdtemp(prefix="vclient_")
    rnd = random.Random(vlib.seed() * 131 + int(pid[1:]))
    cov = {}
    try:
        if replay and pid == "C09":
            validate_c09(replay, v, "replay")
            return v.finish()
        if replay:
            if replay.endswith(".json"):
                scs = json.load(open(replay))
                trace, crashes = run_scenarios(binary, scs, work, "replay")
                for sc, out in crashes:
                    crash_violation(v, pid, sc, out, "replay")
                validate(pid, trace, v, "replay")
            else:
                validate(pid, replay, v, "replay")
            return v.finish()
        design = {}
        if pid == "C11":
            for cfg in (["MC_fetch_live_q.cfg", "MC_fetch_vod.cfg"] if tier == "quick" else ["MC_fetch_live.cfg", "MC_fetch_vod.cfg"]) + \
                    ["MC_fetch_ll.cfg", "MC_fetch_ll_noskip.cfg"]:
                d = vlib.tlc_must_pass("ClientFetch", cfg, timeout=900)
                design[cfg] = [d.distinct, d.generated]
            for cfg in ("MC_fetch_weak_ge.cfg", "MC_fetch_weak_jump.cfg", "MC_fetch_weak_skip.cfg"):
                d = vlib.tlc("ClientFetch", cfg, timeout=300, quiet=True)
                if d.kind != "invariant":
                    raise vlib.Inconclusive("weakened selection rule %s was not refuted (%s)" % (cfg, d.kind))
                design[cfg] = "refuted: " + d.violated
            hists = fetch_histories(tier)
            scs = fetch_scenarios(hists, rnd, 160 if tier == "quick" else 6000)
            cov["histories"] = len(hists)
        elif pid == "C10":
            scs = time_scenarios(rnd, 400 if tier == "quick" else 16000)
        elif pid == "C12":
            scs, design = life_scenarios(tier)
        elif pid == "C13":
            scs = fault_scenarios(binary, tier)
        elif pid == "C09":
            return run_c09(binary, tier, v, work, rnd, t0)
        else:
            raise vlib.Inconclusive("no check for " + pid)
        trace, crashes = run_scenarios(binary, scs, work, pid.lower())
        for sc, out in crashes:
            crash_violation(v, pid, sc, out, pid.lower())
        tc = validate(pid, trace, v, pid.lower())
        if pid == "C10":
            cov["stale_anchor_runs"] = stale_anchor_finding(pid, trace, v)
        outcomes = {}
        ndata = nreq = 0
        samples = []
        model_out = {sc["tag"]: sc.get("modelOutcomes") for sc in scs if "modelOutcomes" in sc}
        drift = []
        forced = False
        with open(trace) as f:
            tag = ""
            for ln in f:
                if '"ev":"reset"' in ln:
                    tag = json.loads(ln)["sc"]["tag"]
                    forced = False
                if '"ev":"forcedclose"' in ln:
                    forced = True
                if '"ev":"wait"' in ln:
                    w = json.loads(ln)
                    e = w["err"]
                    outcomes[e] = outcomes.get(e, 0) + 1
                    if len(samples) < 3:
                        samples.append({"scenario": tag, "wait": w})
                    if tag in model_out:
                        mo = model_out[tag]
                        # conformance with ClientLife.tla (never a verdict): the outcome is one the model reaches; a run the
                        # model never ends (stalled body, no Close) must have needed the harness' forced Close
                        if (not mo and not forced) or (mo and not forced and e not in mo) or (mo and forced):
                            drift.append({"scenario": tag, "real": e, "forced": forced, "model": mo})
                elif '"ev":"data"' in ln:
                    ndata += 1
                elif '"ev":"req"' in ln:
                    nreq += 1
        cov.update({
            "states": tc.states + sum(x[0] for x in design.values() if isinstance(x, list)),
            "transitions": tc.lines + sum(x[1] for x in design.values() if isinstance(x, list)),
            "traces_validated_against_impl": tc.traces, "trace_lines": tc.lines,
            "scenarios": len(scs), "requests": nreq, "deliveries": ndata, "outcomes": outcomes, "design": design,
            "crashes": len(crashes), "exhaustive": False, "samples": samples,
            "conformance": {"scenarios_with_model_outcomes": len(model_out), "outcome_not_in_model": len(drift), "examples": drift[:5]},
        })
        rc = v.finish()
        if pid == "C13":
            cov["evaluations"] = len(scs)
            cov["distinct_nontrivial"] = len(set(sc["mut"] + "/" + sc["mutKind"] for sc in scs))
            cov["rule"] = "one evaluation = one run of the real client with one content fault at one response position; distinct = (fault, response kind) pairs"
        vlib.write_evidence(pid, tier, "fault_enumeration" if pid == "C13" else "model_checking", cov, ASSUME[pid], time.time() - t0,
                            len(v.violations))
        return rc
    finally:
        shutil.rmtree(work, ignore_errors=True)
