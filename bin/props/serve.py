"""C06, C07, C08 - one writer, concurrent HTTP handlers and Close on a Low-Latency muxer.
(spec/MuxerServe.tla, MuxerServeTrace.tla; harness servedrv; hooks rotate.beforeBroadcast, close.afterMark,
close.afterBroadcast)"""
import json
import os
import shutil
import tempfile
import time
from concurrent.futures import ThreadPoolExecutor

import vlib

ASSUME = [
    "one writer goroutine that finally calls Close (the usage shown in the examples); Low-Latency variant, one H264 stream",
    "goroutine states (parked on the condition variable / blocked on the mutex / gated / returned) are read from the "
    "Go runtime at quiescent points; a blocked observation must persist",
    "schedules are enumerated at the granularity of the muxer's critical sections: rotation | its Broadcast, "
    "Close's mark | Broadcast | per-stream close, request arrival",
]

INVS = {
    "C06": ["C06_AnsweredWhenAvailable", "C06_AnswerClass", "C06_HintExact"],
    "C07": ["C07_CloseReleases"],
    "C08": ["C08_Snapshot", "C08_NoPanic", "C08_ViewsConsistent"],
}


def cfg_for(pid, work):
    src = open(os.path.join(vlib.SPEC, "Trace_serve.cfg")).read()
    lines = [ln for ln in src.splitlines() if not ln.startswith("INVARIANTS")]
    lines.append("INVARIANTS " + " ".join(INVS[pid]))
    name = "Trace_serve_%s.cfg" % pid
    with open(os.path.join(vlib.SPEC, name), "w") as f:
        f.write("\n".join(lines) + "\n")
    return name


def replay_sharded(binary, scripts, work, tag, disk=False, race=False):
    nsh = min(vlib.NCPU, max(1, len(scripts) // 20))
    shards = [scripts[i::nsh] for i in range(nsh)]

    def one(i):
        sp = os.path.join(work, "%s_s%d.json" % (tag, i))
        tp = os.path.join(work, "%s_t%d.ndjson" % (tag, i))
        with open(sp, "w") as f:
            json.dump(shards[i], f)
        args = ["serve-replay", "-scripts", sp, "-out", tp, "-nh", "3"] + (["-disk"] if disk else [])
        rc, out, dt = vlib.drive(binary, args, timeout=3000)
        return rc, out, tp

    with ThreadPoolExecutor(max_workers=nsh) as ex:
        res = list(ex.map(one, range(nsh)))
    out_path = os.path.join(work, tag + ".ndjson")
    stuck = 0
    races = []
    with open(out_path, "w") as g:
        for rc, out, tp in res:
            if "DATA RACE" in out:
                races.append(out)
            elif rc != 0:
                raise vlib.Inconclusive("serve-replay failed (rc=%d): %s" % (rc, out[-3000:]))
            for tok in out.split():
                if tok.startswith("notquiescent="):
                    stuck += int(tok.split("=")[1])
            if os.path.exists(tp):
                with open(tp) as f:
                    shutil.copyfileobj(f, g)
    return out_path, stuck, races


def schedules(pid, tier):
    """Schedules from the model: attack schedules of the weakened variants + random walks of the repaired model."""
    attacks = []
    for wc in ("MC_serve_weak_s2.cfg", "MC_serve_weak_s1.cfg", "MC_serve_weak_s5.cfg", "MC_serve_weak_s6.cfg"):
        w = vlib.tlc("MCMuxerServe", wc, timeout=600, quiet=True)
        if w.kind != "invariant":
            raise vlib.Inconclusive("weakened serve model %s not refuted: %s" % (wc, w.kind))
        attacks += vlib.hist_lines(w.out, tag="ATTACK")
    s = vlib.tlc("MCMuxerServe", "Gen_serve.cfg", timeout=(10 if tier == "quick" else 90), simulate="num=100000", depth=200,
                 tlcseed=vlib.seed(), workers=4, quiet=True)
    sim = vlib.hist_lines(s.out)
    if not sim:
        raise vlib.Inconclusive("no schedules generated: " + s.out[-1500:])
    n = 400 if tier == "quick" else 6000
    return attacks, sim[:n]


def absolutize(sc):
    return sc


def run(pid, tier, replay):
    t0 = time.time()
    v = vlib.Verdict(pid)
    binary = vlib.build_harness()
    work = tempfile.mkdtemp(prefix="vsrv_")
    try:
        cfg = cfg_for(pid, work)
        if replay:
            tc = vlib.validate_trace_parallel("MCMuxerServeTrace", cfg, replay, pid, nchunks=1, accept="hw")
            for inv, rp, d in tc.failures:
                v.violation("%s fails on replay (%s)" % (inv, d), rp)
            return v.finish()
        d1 = vlib.tlc_must_pass("MCMuxerServe", "MC_serve_quick.cfg" if tier == "quick" else "MC_serve.cfg", timeout=1800)
        attacks, sim = schedules(pid, tier)
        scripts = attacks + sim
        total_lines = total_traces = states = conf = 0
        unconfirmed = []
        for tag, disk in (("ram", False), ("disk", True)):
            tr, stuck, _ = replay_sharded(binary, scripts if not disk else scripts[: max(50, len(scripts) // 3)], work, tag, disk=disk)
            tc = vlib.validate_trace_parallel("MCMuxerServeTrace", cfg, tr, pid, tag=tag, accept="hw")
            if tc.incomplete:
                raise vlib.Inconclusive("trace not consumed: " + tc.incomplete[0])
            total_lines += tc.lines
            total_traces += tc.traces
            states += tc.states
            conf += tc.conforming
            seen = set()
            for inv, rp, d in tc.failures:
                sig = signature(rp)
                if (inv, sig) in seen:
                    continue
                seen.add((inv, sig))
                if confirm(binary, rp, cfg, work, disk):
                    v.violation("%s on the real Muxer, schedule %s (%s)" % (inv, sig, d), rp, signature=inv + ":" + sig)
                else:
                    unconfirmed.append({"invariant": inv, "schedule": sig})
        if pid == "C06":
            # delta updates (_HLS_skip=YES / v2): after every Write of Low-Latency histories the delta response must be the full
            # playlist of the same instant minus its first SKIPPED-SEGMENTS entries (sequential muxer harness)
            import random
            from props import muxer, muxgen
            rnd = random.Random(vlib.seed() * 7919 + 6)
            scs = muxgen.general(rnd, 48 if tier == "quick" else 600, (60, 200), variants=("ll",))
            scs += muxgen.long_rotations(rnd, 8 if tier == "quick" else 48, 40 if tier == "quick" else 200, variants=("ll",))
            tr = muxer.replay_sharded(binary, scs, work, "delta", ["-noemit", "-delta"])
            tc = vlib.validate_trace_parallel("MuxTrace", "Trace_mux_C06.cfg", tr, pid, tag="delta")
            if tc.incomplete:
                raise vlib.Inconclusive("trace not consumed: " + tc.incomplete[0])
            total_lines += tc.lines
            total_traces += tc.traces
            states += tc.states
            for inv, rp, d in tc.failures:
                sig, what = muxer.signature(rp)
                v.violation("%s: %s (%s)" % (inv, what, d), rp, signature="delta:" + sig)
        if pid == "C07":
            # Close after a write history in every variant / storage mode (sequential muxer harness): directory empty
            import random
            from props import muxer, muxgen
            rnd = random.Random(vlib.seed() * 7919 + 7)
            scs = muxgen.general(rnd, 96 if tier == "quick" else 900, (20, 120))
            for sc in scs:
                sc["cfg"]["disk"] = True
            tr = muxer.replay_sharded(binary, scs, work, "dirs", ["-noemit"])
            tc = vlib.validate_trace_parallel("MuxTrace", "Trace_mux_C07.cfg", tr, pid, tag="dirs")
            if tc.incomplete:
                raise vlib.Inconclusive("trace not consumed: " + tc.incomplete[0])
            total_lines += tc.lines
            total_traces += tc.traces
            states += tc.states
            for inv, rp, d in tc.failures:
                sig, what = muxer.signature(rp)
                v.violation("%s: %s (%s)" % (inv, what, d), rp, signature="dir:" + sig)
        race_info = {}
        if pid == "C08":
            race_info = race_part(pid, tier, v, work, scripts)
            total_lines += race_info.get("stress_lines", 0)
            total_traces += race_info.get("stress_traces", 0)
            states += race_info.get("stress_states", 0)
        cov = {
            "race_detector": race_info,
            "states": d1.distinct + states, "transitions": d1.generated + total_lines,
            "traces_validated_against_impl": total_traces, "trace_lines": total_lines,
            "design": {"MC_serve.cfg": [d1.distinct, d1.generated], "liveness": "CloseUnblocks under WF of handler evaluations",
                       "weakened_variants_refuted": ["StreamClosedUnderLock", "HintUnlocksOnClosed", "RolloverChecksOpen", "GapIsContent"]},
            "schedules_attack": len(attacks), "schedules_simulated": len(sim),
            "conformance": {"traces_followed_by_model": conf, "traces": total_traces},
            "unconfirmed_alarms": unconfirmed,
            "samples": [attacks[0], sim[0][:12]],
        }
        rcode = v.finish()
        vlib.write_evidence(pid, tier, "model_checking", cov, ASSUME, time.time() - t0, len(v.violations))
        return rcode
    finally:
        shutil.rmtree(work, ignore_errors=True)


def script_of(replay_path):
    cmds = []
    with open(replay_path) as f:
        for ln in f:
            d = json.loads(ln)
            if d.get("ev") == "cmd":
                c = {"c": d["c"]}
                if d["c"] == "req":
                    c["h"] = d["h"]
                    c["r"] = {"kind": d["r"]["kind"], "M": d["r"]["M"], "P": d["r"]["P"] if d["r"].get("hasP") else -1, "abs": 1}
                cmds.append(c)
    return cmds


def signature(replay_path):
    out = []
    for c in script_of(replay_path):
        if c["c"] == "req":
            out.append("req(%s)" % c["r"]["kind"])
        else:
            out.append(c["c"])
    return ",".join(out)


def rel_script(replay_path):
    """Rebuild the relative-request script of a replay (M relative to the open segment at issue time)."""
    cmds = []
    next_seg = 7
    with open(replay_path) as f:
        for ln in f:
            d = json.loads(ln)
            if d.get("ev") != "cmd":
                continue
            c = {"c": d["c"]}
            if d["c"] == "wseg":
                next_seg += 1
            if d["c"] == "req":
                c["h"] = d["h"]
                c["r"] = {"kind": d["r"]["kind"], "M": d["r"]["M"] - next_seg, "P": d["r"]["P"] if d["r"].get("hasP") else -1}
                if d["r"]["kind"] != "block":
                    c["r"]["M"] = 0
            cmds.append(c)
    return cmds


def confirm(binary, rp, cfg, work, disk, n=10):
    """Re-run the schedule n times; a violation is reported only if it shows again."""
    sc = rel_script(rp)
    sp = os.path.join(work, "confirm.json")
    tp = os.path.join(work, "confirm.ndjson")
    with open(sp, "w") as f:
        json.dump([sc] * n, f)
    args = ["serve-replay", "-scripts", sp, "-out", tp, "-nh", "3"] + (["-disk"] if disk else [])
    rc, out, dt = vlib.drive(binary, args, timeout=900)
    if rc != 0:
        raise vlib.Inconclusive("confirmation replay failed: " + out[-1000:])
    r, _ = vlib.validate_trace("MCMuxerServeTrace", cfg, tp)
    return r.kind == "invariant"


import re


def racing_pairs(out):
    """(function, function) pairs of the top frames of the two stacks of every race report."""
    pairs = {}
    for blk in out.split("WARNING: DATA RACE")[1:]:
        m = re.search(r"(?:Write|Read) at .*?\n  ([^\n]+)\(\)\n.*?Previous (?:write|read) at .*?\n  ([^\n]+)\(\)", blk, re.S)
        if m:
            a, b = sorted([m.group(1).strip(), m.group(2).strip()])
            pairs.setdefault((a, b), blk[:3000])
    return pairs


def race_part(pid, tier, v, work, scripts):
    """Memory-level half of C08: the same gated schedules and a free-running stress run under the Go race detector;
    the playlist views received during the stress run are judged by TLC (StressTrace.tla)."""
    rb = vlib.build_harness(race=True)
    info = {}
    outs = []
    n = 40 if tier == "quick" else 400
    for disk in (False, True):
        sp = os.path.join(work, "race_s%d.json" % disk)
        tp = os.path.join(work, "race_t%d.ndjson" % disk)
        with open(sp, "w") as f:
            json.dump(scripts[:n], f)
        rc, out, dt = vlib.drive(rb, ["serve-replay", "-scripts", sp, "-out", tp, "-nh", "3"] + (["-disk"] if disk else []),
                                 timeout=3000, env_extra={"GORACE": "halt_on_error=0"})
        outs.append(out)
        if rc not in (0, 66) and "DATA RACE" not in out:
            raise vlib.Inconclusive("race-enabled serve-replay failed (rc=%d): %s" % (rc, out[-2000:]))
    st = os.path.join(work, "stress.ndjson")
    secs = "1.2" if tier == "quick" else "8"
    rc, out, dt = vlib.drive(rb, ["mux-stress", "-out", st, "-secs", secs, "-readers", "8" if tier == "quick" else "24",
                                  "-seed", str(vlib.seed())], timeout=3000, env_extra={"GORACE": "halt_on_error=0"})
    outs.append(out)
    if rc not in (0, 66) and "DATA RACE" not in out:
        raise vlib.Inconclusive("race-enabled mux-stress failed (rc=%d): %s" % (rc, out[-2000:]))
    pairs = {}
    for o in outs:
        pairs.update(racing_pairs(o))
    os.makedirs(vlib.REPLAYS, exist_ok=True)
    for (a, b), blk in pairs.items():
        rp = os.path.join(vlib.REPLAYS, "%s-race-%s.txt" % (pid, re.sub(r"[^A-Za-z0-9]+", "_", a + "__" + b)[:120]))
        with open(rp, "w") as f:
            f.write("WARNING: DATA RACE" + blk)
        v.violation("data race between %s and %s" % (a, b), rp, signature="race:%s|%s" % (a, b))
    info["race_reports"] = len(pairs)
    info["gated_schedules_under_race"] = 2 * min(n, len(scripts))
    if os.path.exists(st):
        tc = vlib.validate_trace_parallel("StressTrace", "Trace_stress.cfg", st, pid, tag="stress")
        if tc.incomplete:
            raise vlib.Inconclusive("stress trace not consumed: " + tc.incomplete[0])
        for inv, rp, d in tc.failures:
            v.violation("%s on a free-running stress run (%s)" % (inv, d), rp, signature="stress:" + inv)
        info.update({"stress_lines": tc.lines, "stress_traces": tc.traces, "stress_states": tc.states})
    return info
