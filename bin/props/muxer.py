"""Muxer family: C01-C05, C16, C18, C19.  (spec/MuxMonitor.tla, MuxTrace.tla, HlsMuxer.tla; harness muxdrv)"""
import json
import os
import random
import shutil
import tempfile
import time
from concurrent.futures import ThreadPoolExecutor

import vlib
from props import muxgen

ASSUME = [
    "video units are synthesised with DTS = PTS (H264 SPS with pic_order_cnt_type 2, VP9, AV1); B-frame PTS offsets "
    "through the DTS extractors are not exercised on the muxer side",
    "durations in playlists are converted to ticks of the leading track by rounding text x rate (unique for rates <= 90 kHz)",
    "SegmentMinDuration / PartMinDuration are whole milliseconds; Track.ClockRate equals the fMP4 timescale of the codec",
    "a Write that returns an error ends the trace (the statements quantify over all-successful sequences)",
]

INV = {
    "C01": "Trace_mux_C01.cfg", "C02": "Trace_mux_C02.cfg", "C03": "Trace_mux_C03.cfg",
    "C04": "Trace_mux_C04.cfg", "C05": "Trace_mux_C05.cfg", "C18": "Trace_mux_C18.cfg", "C19": "Trace_mux_C19.cfg", "C16": "Trace_mux_C16.cfg",
}


def replay_sharded(binary, scripts, work, tag, flags):
    nsh = min(vlib.NCPU, max(1, len(scripts)))
    shards = [scripts[i::nsh] for i in range(nsh)]

    def one(i):
        sp = os.path.join(work, "%s_s%d.json" % (tag, i))
        tp = os.path.join(work, "%s_t%d.ndjson" % (tag, i))
        with open(sp, "w") as f:
            json.dump(shards[i], f)
        rc, out, dt = vlib.drive(binary, ["mux-replay", "-scripts", sp, "-out", tp] + flags, timeout=3000)
        return rc, out, tp

    with ThreadPoolExecutor(max_workers=nsh) as ex:
        res = list(ex.map(one, range(nsh)))
    out_path = os.path.join(work, tag + ".ndjson")
    with open(out_path, "w") as g:
        for rc, out, tp in res:
            if rc != 0:
                raise vlib.Inconclusive("mux-replay failed (rc=%d): %s" % (rc, out[-3000:]))
            with open(tp) as f:
                shutil.copyfileobj(f, g)
            os.remove(tp)
    return out_path


# ---- design checks (exhaustive TLC runs of the implementation-shaped model with the monitor as invariants) ----
DESIGN = {
    "C01": ["MC_mux_fmp4_va.cfg", "MC_mux_ll_va.cfg", "MC_mux_ts_va.cfg", "MC_mux_ll_a.cfg"],
    "C02": ["MC_mux_fmp4_va.cfg", "MC_mux_ts.cfg", "MC_mux_ts_a.cfg", "MC_mux_ll_va.cfg"],
    "C03": ["MC_mux_fmp4_va.cfg", "MC_mux_ll_va.cfg", "MC_mux_ts_va.cfg"],
    "C04": ["MC_mux_fmp4_va.cfg", "MC_mux_ll_va.cfg", "MC_mux_ts_va.cfg", "MC_mux_ll_a.cfg"],
    "C05": ["MC_mux_ll_va.cfg"],
    "C16": [],
    "C18": ["MC_mux_size.cfg", "MC_mux_ll_va.cfg", "MC_mux_ts_va.cfg"],
    "C19": ["MC_mux_ll_a.cfg", "MC_mux_ll_va.cfg"],
}
DESIGN_DEEP = ["MC_mux_fmp4.cfg", "MC_mux_ll.cfg", "MC_mux_ts.cfg"]
# weakened variants of HlsMuxer.tla (vacuity guards): (cfg, invariant TLC must report)
WEAK = {
    "C01": [("MC_mux_weak_noGate.cfg", "C01")],
    "C02": [("MC_mux_weak_gtSegMin.cfg", "C02")],
    "C04": [("MC_mux_weak_keepOneMore.cfg", "C04")],
    "C18": [("MC_mux_weak_keepOneMore.cfg", "C04")],
}

# model configurations used to generate write scripts with TLC (-simulate); ticks are milliseconds
SIMS = {
    "fmp4": ("Sim_mux_fmp4.cfg", {"variant": "fmp4", "tracks": [{"codec": "h264"}, {"codec": "opus"}], "segCount": 3,
                                   "segMinMs": 60, "partMinMs": 50, "maxSize": 1000000, "disk": False}),
    "ll": ("Sim_mux_ll.cfg", {"variant": "ll", "tracks": [{"codec": "h264"}, {"codec": "opus"}], "segCount": 7,
                               "segMinMs": 80, "partMinMs": 50, "maxSize": 1000000, "disk": False}),
    "mpegts": ("Sim_mux_ts.cfg", {"variant": "mpegts", "tracks": [{"codec": "h264"}, {"codec": "aac", "rate": 32000}], "segCount": 3,
                                   "segMinMs": 60, "partMinMs": 50, "maxSize": 1000000, "disk": False}),
}


def design(pid, tier):
    cfgs = list(DESIGN.get(pid, []))
    if tier == "thorough":
        cfgs += DESIGN_DEEP
    st = tr = 0
    done = []
    for c in cfgs:
        r = vlib.tlc_must_pass("MCHlsMuxer", c, timeout=1200)
        st += r.distinct
        tr += r.generated
        done.append({"cfg": c, "states": r.distinct, "transitions": r.generated})
    if pid in ("C04", "C18"):
        # unbounded histories: the window laws as an inductive invariant (Apalache), and the induction must FAIL for the
        # weakened rotation
        ok1, _, o1 = vlib.apalache("Window", ["--cinit=ConstInit", "--init=Init", "--inv=IndInv", "--length=0"])
        ok2, _, o2 = vlib.apalache("Window", ["--cinit=ConstInit", "--init=IndInit", "--inv=IndInv", "--length=1"])
        _, bad3, o3 = vlib.apalache("Window", ["--cinit=ConstInitWeak", "--init=IndInit", "--inv=IndInv", "--length=1"])
        if not (ok1 and ok2 and bad3):
            raise vlib.Inconclusive("Window.tla: inductive invariant not established (init %s, step %s, weak refuted %s)\n%s" % (
                ok1, ok2, bad3, (o1 + o2 + o3)[-1500:]))
        done.append({"module": "Window.tla", "engine": "apalache", "inductive_invariant": "IndInv (any SegmentCount >= 1, any history length)",
                     "weakened_rotation_refuted": True})
    for c, inv in WEAK.get(pid, []):
        r = vlib.tlc("MCHlsMuxer", c, timeout=600, quiet=True)
        if r.kind != "invariant":
            raise vlib.Inconclusive("weakened muxer model %s was not refuted (%s)" % (c, r.kind))
        done.append({"cfg": c, "refuted_by": r.violated})
    return st, tr, done


def model_scripts(tier, rnd):
    """Write scripts produced by TLC from the model (random walks through MCHlsMuxer), converted to real clocks."""
    out = []
    per = 60 if tier == "quick" else 700
    for variant, (cfgfile, cfg) in SIMS.items():
        # TLC's simulator keeps producing behaviours until stopped: give it a time budget and take the first `per`
        r = vlib.tlc("MCHlsMuxer", cfgfile, timeout=(8 if tier == "quick" else 60), simulate="num=100000", depth=64,
                     tlcseed=rnd.randint(1, 10**6), workers=4, quiet=True)
        hs = vlib.hist_lines(r.out)
        if not hs:
            raise vlib.Inconclusive("no model behaviours from %s: %s" % (cfgfile, r.out[-1500:]))
        rates = [muxgen.rate_of(t) for t in cfg["tracks"]]
        for h in hs[:per]:
            steps = []
            for w in h:
                t = w["t"] - 1
                u = w["u"][0]
                st = {"t": t, "dts": u["dts"] * rates[t] // 1000, "ra": u["ra"], "ps": u["ps"], "size": 10, "n": len(w["u"])}
                steps.append(st)
            c = dict(cfg)
            c["disk"] = rnd.random() < 0.3
            out.append({"cfg": c, "steps": steps})
    return out


def script_sets(pid, tier, rnd):
    q = tier == "quick"
    if pid in ("C01", "C02", "C03"):
        return [("gen", muxgen.general(rnd, 320 if q else 3000, (40, 160) if q else (60, 400)), []),
                ("td", muxgen.td_profile(rnd, 48 if q else 600), [])]
    if pid == "C04":
        return [("long", muxgen.long_rotations(rnd, 12 if q else 36, 300 if q else 3000), ["-noemit"]),
                ("gen", muxgen.general(rnd, 24 if q else 200, (40, 120)), ["-noemit"]),
                ("td", muxgen.td_profile(rnd, 48 if q else 600), ["-noemit"])]
    if pid == "C05":
        return [("long", muxgen.long_rotations(rnd, 12 if q else 36, 120 if q else 800), ["-probe", "-noemit"]),
                ("gen", muxgen.general(rnd, 24 if q else 200, (40, 120)), ["-probe"])]
    if pid == "C18":
        return [("longd", muxgen.long_rotations(rnd, 9 if q else 32, 300 if q else 1200, disk=True), ["-probe", "-noemit"]),
                ("longr", muxgen.long_rotations(rnd, 9 if q else 32, 200 if q else 1000, disk=False), ["-probe", "-noemit"]),
                ("size", muxgen.size_limit(rnd, 60 if q else 600), [])]
    if pid == "C16":
        return [("cfgs", muxgen.track_lists(rnd, 150 if q else 1500), ["-mv", "-noemit"]),
                ("gen", muxgen.general(rnd, 60 if q else 600, (40, 120)), ["-mv", "-noemit"]),
                ("zero", muxgen.zero_duration_segment(rnd, 8 if q else 40), ["-mv", "-noemit"])]
    if pid == "C19":
        return [("grid", muxgen.c19_grid(rnd, 160 if q else 2400), ["-noemit"])]
    raise vlib.Inconclusive("no script set for " + pid)


def describe(sc):
    c = sc["cfg"]
    return {"variant": c["variant"], "tracks": [t["codec"] for t in c["tracks"]], "segCount": c["segCount"],
            "segMinMs": c["segMinMs"], "partMinMs": c["partMinMs"], "disk": c["disk"], "writes": len(sc["steps"]),
            "first_steps": sc["steps"][:4]}


def run(pid, tier, replay):
    t0 = time.time()
    v = vlib.Verdict(pid)
    if pid not in INV:
        raise vlib.Inconclusive("check for %s not built yet" % pid)
    binary = vlib.build_harness()
    work = tempfile.mkdtemp(prefix="vmux_")
    try:
        if replay:
            tc = vlib.validate_trace_parallel("MuxTrace", INV[pid], replay, pid, nchunks=1)
            for inv, rp, d in tc.failures:
                v.violation("%s fails on replay (%s)" % (inv, d), rp)
            return v.finish()
        rnd = random.Random(vlib.seed() * 1000003 + int(pid[1:]))
        dstates, dtrans, ddone = design(pid, tier)
        sets = script_sets(pid, tier, rnd)
        if pid in ("C01", "C02", "C03", "C04"):
            flags = ["-noemit"] if pid == "C04" else []
            sets.append(("model", model_scripts(tier, rnd), flags))
        lines = traces = states = nscripts = 0
        conf_ok = conf_n = 0
        samples = []
        for tag, scripts, flags in sets:
            nscripts += len(scripts)
            samples.append(describe(scripts[0]))
            tr = replay_sharded(binary, scripts, work, tag, flags)
            tc = vlib.validate_trace_parallel("MuxTrace", INV[pid], tr, pid, tag=tag, timeout=900 if tier == "quick" else 3000)
            lines += tc.lines
            traces += tc.traces
            states += tc.states
            if tc.incomplete:
                raise vlib.Inconclusive("trace not consumed: " + tc.incomplete[0])
            for inv, rp, d in tc.failures:
                sig, what = signature(rp)
                v.violation("%s on the real Muxer: %s (%s)" % (inv, what, d), rp, signature=sig)
            # conformance of the implementation-shaped model (HlsMuxer.tla) on the same traces: evidence only
            conf_tags = ("model", "td", "size", "cfgs") if tier == "quick" else ("gen", "model", "td", "size", "grid", "cfgs")
            if tag in conf_tags and "-probe" not in flags:
                cc = vlib.validate_trace_parallel("MuxTrace", "Trace_mux_conf.cfg", tr, pid, tag=tag + "conf")
                conf_ok += cc.conforming
                conf_n += cc.traces
            os.remove(tr)
        cov = {
            "states": states + dstates, "transitions": lines + dtrans, "traces_validated_against_impl": traces,
            "design": ddone,
            "conformance": {"traces_followed_by_model": conf_ok, "traces_compared": conf_n,
                            "note": "HlsMuxer.tla stepped with the recorded writes; MRender must equal what the real muxer served "
                                    "(playlists and decoded fragments); divergence is spec drift, evidence only"},
            "scripts": nscripts, "trace_lines": lines, "samples": samples,
            "rule": "seeded random write scripts over variants x track sets x codecs x durations; every Write is followed by "
                    "a full observation (playlists, newly listed fragments decoded, probes, directory)",
        }
        rcode = v.finish()
        vlib.write_evidence(pid, tier, "model_checking", cov, ASSUME, time.time() - t0, len(v.violations))
        return rcode
    finally:
        shutil.rmtree(work, ignore_errors=True)


def signature(replay_path):
    """(signature, human text) of the failing trace: configuration + the last write."""
    cfg, last, n = None, None, 0
    with open(replay_path) as f:
        for ln in f:
            d = json.loads(ln)
            if d.get("ev") == "reset":
                cfg = d
            elif d.get("ev") == "write":
                last = d
                n += 1
    if cfg is None:
        return "?", "?"
    what = "variant=%s tracks=%s segCount=%s disk=%s after %d writes (last: track %s unit %s)" % (
        cfg["variant"], [t["codec"] for t in cfg["tracks"]], cfg["segCount"], cfg["disk"], n,
        last and last["t"], last and [u["id"] for u in last["u"]])
    sig = "%s/%s" % (cfg["variant"], ",".join(t["codec"] for t in cfg["tracks"]))
    return sig, what
