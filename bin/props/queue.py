"""C20 - client download pipeline: FIFO, exactly-once, bounded look-ahead, no lost wake-up.
(spec/SegQueue.tla, SegQueueTrace.tla; hooks q.wait.afterUnlock / q.pull.afterUnlock)"""
import json
import os
import shutil
import tempfile
import time
from concurrent.futures import ThreadPoolExecutor

import vlib

ASSUME = [
    "one producer and one consumer goroutine (the client's stream downloader and stream processor)",
    "goroutine states (blocked in select / parked at a hook gate / returned) are read from the Go runtime "
    "(runtime.Stack wait reasons) at quiescent points; a blocked observation must repeat twice",
    "schedules are enumerated at the queue's synchronization points: whole critical sections plus the window "
    "between Unlock and the select of pull / waitUntilSizeIsBelow (hooks)",
]


def replay_sharded(binary, scripts, work, tag):
    nsh = min(vlib.NCPU, max(1, len(scripts) // 50))
    shards = [scripts[i::nsh] for i in range(nsh)]

    def one(i):
        sp = os.path.join(work, "%s_s%d.json" % (tag, i))
        tp = os.path.join(work, "%s_t%d.ndjson" % (tag, i))
        with open(sp, "w") as f:
            json.dump(shards[i], f)
        rc, out, dt = vlib.drive(binary, ["queue-replay", "-scripts", sp, "-out", tp, "-n", "1"], timeout=1800)
        return rc, out, tp

    with ThreadPoolExecutor(max_workers=nsh) as ex:
        res = list(ex.map(one, range(nsh)))
    out_path = os.path.join(work, tag + ".ndjson")
    stuck = 0
    with open(out_path, "w") as g:
        for rc, out, tp in res:
            if rc != 0:
                raise vlib.Inconclusive("queue-replay failed: " + out[-2000:])
            for tok in out.split():
                if tok.startswith("notquiescent="):
                    stuck += int(tok.split("=")[1])
            with open(tp) as f:
                shutil.copyfileobj(f, g)
    return out_path, stuck


def run(pid, tier, replay):
    t0 = time.time()
    v = vlib.Verdict(pid)
    binary = vlib.build_harness()
    work = tempfile.mkdtemp(prefix="vc20_")
    cov = {}
    try:
        if replay and '"sc":' in open(replay).readline():
            from props import client
            client.validate(pid, replay, v, "replay")
            return v.finish()
        if replay:
            tc = vlib.validate_trace_parallel("SegQueueTrace", "Trace_queue.cfg", replay, pid, nchunks=1, accept="hw")
            for inv, rp, d in tc.failures:
                v.violation("%s fails on replay (%s)" % (inv, d), rp)
            return v.finish()

        # 1. design: safety + liveness of the queue model (repaired behaviour), and refutation of the weakened variants
        d1 = vlib.tlc_must_pass("SegQueue", "MC_queue.cfg", timeout=900)
        d2 = vlib.tlc_must_pass("SegQueue", "MC_queue_alt.cfg", timeout=900)
        attacks = []
        for wc in ("MC_queue_weakW.cfg", "MC_queue_weakP.cfg"):
            w = vlib.tlc("SegQueue", wc, timeout=600)
            if w.kind != "invariant":
                raise vlib.Inconclusive("weakened queue model %s not refuted: %s" % (wc, w.kind))
            attacks += vlib.hist_lines(w.out, tag="ATTACK")
        if not attacks:
            raise vlib.Inconclusive("no attack schedule exported")

        # 2. schedules: all maximal command sequences of the model to the bound + random deep ones + attacks
        gcfg = "Gen_queue.cfg" if tier == "quick" else "Gen_queue_deep.cfg"
        g = vlib.tlc("SegQueue", gcfg, timeout=1500)
        if not g.ok():
            raise vlib.Inconclusive("schedule generation failed: %s\n%s" % (g.kind, g.out[-2000:]))
        ex = vlib.hist_lines(g.out)
        nsim = 500 if tier == "quick" else 8000
        s = vlib.tlc("SegQueue", "Sim_queue.cfg", timeout=900, simulate="num=%d" % nsim, depth=80,
                     tlcseed=vlib.seed(), workers=4)
        sim = vlib.hist_lines(s.out)
        if not ex or not sim:
            raise vlib.Inconclusive("no schedules generated\n" + s.out[-1500:])
        scripts = attacks + ex + sim

        # 3. replay on the real queue (sharded over processes: the hook is process-global)
        tr, stuck = replay_sharded(binary, scripts, work, "q")
        if stuck:
            # a goroutine that neither returned, nor reached a gate, nor blocked: rerun to tell flakiness from a hang
            tr, stuck2 = replay_sharded(binary, scripts, work, "q2")
            if stuck2 == 0:
                stuck = 0
            else:
                raise vlib.Inconclusive("%d schedules left a goroutine running (not quiescent) twice" % stuck2)

        # 4. validation: C20_* on the observations; conformance of the implementation-shaped model
        tc = vlib.validate_trace_parallel("SegQueueTrace", "Trace_queue.cfg", tr, pid, accept="hw")
        if tc.incomplete:
            raise vlib.Inconclusive("trace not consumed: " + tc.incomplete[0])
        unconfirmed = []
        for inv, rp, d in tc.failures:
            sig = signature(rp)
            # a verdict needs a reproducible schedule: replay exactly this schedule again (DESIGN 6.3)
            if confirm(binary, sig.split(","), work, pid):
                v.violation("%s on the real clientSegmentQueue, schedule %s (%s)" % (inv, sig, d), rp, signature=sig)
            else:
                unconfirmed.append({"invariant": inv, "schedule": sig})
                vlib.log("[C20] alarm %s on schedule %s did not reproduce in 40 re-runs: not reported" % (inv, sig))

        # 5. canary: a corrupted observation (consumer asleep with a segment queued) must be rejected
        can = canary(tr, work)
        cr, _ = vlib.validate_trace("SegQueueTrace", "Trace_queue.cfg", can)
        if cr.kind != "invariant":
            raise vlib.Inconclusive("canary trace was not rejected")

        # 6. end to end: the real Client against the stub server at several server / application speeds (look-ahead bound)
        import random
        from props import client
        e2e = client.e2e_lookahead(binary, tier, v, work, random.Random(vlib.seed() * 17 + 20))
        cov.update(e2e)

        with open(tr) as f:
            head = [json.loads(next(f)) for _ in range(9)]
        cov.update({
            "states": d1.distinct + d2.distinct + tc.states,
            "transitions": d1.generated + d2.generated + tc.lines,
            "traces_validated_against_impl": tc.traces,
            "trace_lines": tc.lines,
            "design": {"MC_queue.cfg": [d1.distinct, d1.generated], "MC_queue_alt.cfg": [d2.distinct, d2.generated],
                       "liveness": "PLeaves, CLeaves under WF of the wake steps",
                       "weakened_variants_refuted": ["WaitCaptures=FALSE", "PullCaptures=FALSE"]},
            "schedules_exhaustive": len(ex), "schedules_simulated": len(sim), "schedules_attack": len(attacks),
            "generation_cfg": gcfg,
            "conformance": {"traces_followed_by_model": tc.conforming, "traces": tc.traces,
                            "note": "spec drift is evidence only (DESIGN section 3)"},
            "canaries_rejected": 1,
            "unconfirmed_alarms": unconfirmed,
            "exhaustive": True,
            "samples": [attacks[0], ex[0], head],
        })
        rcode = v.finish()
        vlib.write_evidence(pid, tier, "model_checking", cov, ASSUME, time.time() - t0, len(v.violations))
        return rcode
    finally:
        shutil.rmtree(work, ignore_errors=True)


def confirm(binary, cmds, work, pid, n=40):
    """Re-run one schedule n times; True iff a C20_* predicate fails again on at least one run."""
    sp = os.path.join(work, "confirm.json")
    tp = os.path.join(work, "confirm.ndjson")
    with open(sp, "w") as f:
        json.dump([cmds] * n, f)
    rc, out, dt = vlib.drive(binary, ["queue-replay", "-scripts", sp, "-out", tp, "-n", "1"], timeout=600)
    if rc != 0:
        raise vlib.Inconclusive("confirmation replay failed: " + out[-1000:])
    r, _ = vlib.validate_trace("SegQueueTrace", "Trace_queue.cfg", tp)
    return r.kind == "invariant"


def signature(replay_path):
    cmds = []
    with open(replay_path) as f:
        for ln in f:
            d = json.loads(ln)
            if d.get("ev") == "cmd":
                cmds.append(d["c"])
    return ",".join(cmds)


def canary(trace, work):
    out = os.path.join(work, "canary.ndjson")
    done = False
    n = 0
    with open(trace) as f, open(out, "w") as g:
        for ln in f:
            n += 1
            if done and n > 3000 and ln.startswith('{"ev":"reset"'):
                break
            if not done:
                d = json.loads(ln)
                if d.get("ev") == "cmd" and d.get("C") == "idle" and d.get("len", 0) >= 1 and d.get("c") != "cancel":
                    d["C"] = "sel"
                    ln = json.dumps(d) + "\n"
                    done = True
            g.write(ln)
    if not done:
        raise vlib.Inconclusive("no suitable line for the canary")
    return out
