"""C17 - storage returns what was written; RAM and disk equivalent.  (spec/Storage.tla, StorageTrace.tla)"""
import json
import os
import random
import shutil
import tempfile
import time

import vlib

ASSUME = [
    "discipline of Storage.tla: one Writer() per part, only the newest part is written, nothing is written or "
    "allocated after Finalize, a part is not written while a reader is open on it (both muxer call sites obey it)",
    "bytes are abstracted to symbols; a symbol stands for a block of `unit` identical bytes (unit=1 in the "
    "exhaustive scripts, 4096/1000 in the random large scripts); non-uniform blocks are reported as symbol 255",
    "reads go through io.ReadFull (buffer sizes > 0) so the amount returned is deterministic",
    "Linux semantics for readers that stay open across Remove",
]


def run(pid, tier, replay):
    t0 = time.time()
    v = vlib.Verdict(pid)
    binary = vlib.build_harness()
    work = tempfile.mkdtemp(prefix="vc17_")
    cov = {"samples": []}
    try:
        if replay:
            tc = vlib.validate_trace_parallel("MCStorageTrace", "Trace_storage.cfg", replay, pid, nchunks=1)
            for inv, rp, d in tc.failures:
                v.violation("%s fails on replay %s (%s)" % (inv, replay, d), rp)
            return v.finish()

        # 1. design: the disk implementation shape refines the abstract file (exhaustive, small constants)
        d1 = vlib.tlc_must_pass("MCStorage", "MC_storage.cfg", timeout=600)
        # vacuity guard: the weakened shape (no extension at Finalize) must be refuted
        d2 = vlib.tlc("MCStorage", "MC_storage_weak.cfg", timeout=600)
        if d2.kind != "invariant":
            raise vlib.Inconclusive("weakened storage model not refuted: " + d2.kind)
        attack = vlib.hist_lines(d2.out, tag="ATTACK")
        cov["design"] = {"cfg": "MC_storage.cfg", "states": d1.distinct, "transitions": d1.generated,
                         "constants": "MaxParts=2 MaxLen=4 MaxOps=7 MaxReaders=1 Writes={<<1>>,<<2,1>>} 6 seeks reads {0,1,2,7}",
                         "weakened_variant_refuted": d2.violated}

        # 2. scripts: every maximal model history (exhaustive) + random deep walks of the model
        scripts = []
        gcfg = "Gen_storage.cfg" if tier == "quick" else "Gen_storage_deep.cfg"
        g = vlib.tlc("MCStorage", gcfg, timeout=1500)
        if not g.ok():
            raise vlib.Inconclusive("script generation failed: %s\n%s" % (g.kind, g.out[-2000:]))
        ex = vlib.hist_lines(g.out)
        scripts += ex
        nsim = 3000 if tier == "quick" else 40000
        per = max(1, nsim // 4)
        s = vlib.tlc("MCStorage", "Sim_storage.cfg", timeout=900, simulate="num=%d" % per, depth=14,
                     tlcseed=vlib.seed(), workers=4)
        sim = vlib.hist_lines(s.out)
        if len(sim) == 0:
            raise vlib.Inconclusive("simulation produced no histories:\n" + s.out[-2000:])
        scripts += sim
        scripts += attack
        # one driver process per 8000 scripts: a disk-backed file that is removed without having been finalized keeps its
        # descriptor open in the library (fileDisk.Remove only unlinks; observation outside the listed properties, DESIGN 12.7),
        # so a single process would run out of descriptors in the thorough tier
        tr1 = os.path.join(work, "t1.ndjson")
        with open(tr1, "w") as g:
            for b in range(0, len(scripts), 8000):
                sp = os.path.join(work, "scripts%d.json" % b)
                with open(sp, "w") as f:
                    json.dump(scripts[b:b + 8000], f)
                tb = os.path.join(work, "t1_%d.ndjson" % b)
                rc, out, dt = vlib.drive(binary, ["storage-replay", "-scripts", sp, "-out", tb, "-unit", "1"], timeout=1800)
                if rc != 0:
                    raise vlib.Inconclusive("storage-replay failed: " + out[-2000:])
                with open(tb) as f:
                    shutil.copyfileobj(f, g)
                os.remove(tb)

        # 3. random large scripts (same discipline), block symbols
        tr2 = os.path.join(work, "t2.ndjson")
        nr = 300 if tier == "quick" else 5000
        rc, out, dt = vlib.drive(binary, ["storage-rand", "-out", tr2, "-n", str(nr), "-seed", str(vlib.seed()),
                                          "-unit", "4096", "-maxops", "60", "-maxparts", "6", "-maxlen", "64"], timeout=1800)
        if rc != 0:
            raise vlib.Inconclusive("storage-rand failed: " + out[-2000:])
        tr3 = os.path.join(work, "t3.ndjson")
        rc, out, dt = vlib.drive(binary, ["storage-rand", "-out", tr3, "-n", str(nr), "-seed", str(vlib.seed() + 7919),
                                          "-unit", "1000", "-maxops", "40", "-maxparts", "4", "-maxlen", "20"], timeout=1800)
        if rc != 0:
            raise vlib.Inconclusive("storage-rand failed: " + out[-2000:])

        # 4. trace validation
        total_lines = total_traces = states = 0
        for tag, tr in (("ex", tr1), ("rb", tr2), ("rk", tr3)):
            tc = vlib.validate_trace_parallel("MCStorageTrace", "Trace_storage.cfg", tr, pid, tag=tag)
            total_lines += tc.lines
            total_traces += tc.traces
            states += tc.states
            if tc.incomplete:
                raise vlib.Inconclusive("trace not consumed: " + tc.incomplete[0])
            for inv, rp, d in tc.failures:
                sig = signature(rp)
                v.violation("%s: real storage result differs from the abstract file (%s) script=%s" % (inv, d, sig), rp, signature=sig)

        # 5. canary: corrupt one logged result, TLC must reject
        can = canary(tr1, work)
        cr, _ = vlib.validate_trace("MCStorageTrace", "Trace_storage.cfg", can)
        if cr.kind != "invariant":
            raise vlib.Inconclusive("canary trace (one corrupted read result) was not rejected")

        with open(tr1) as f:
            head = [json.loads(next(f)) for _ in range(8)]
        cov.update({
            "states": d1.distinct + states,
            "transitions": d1.generated + total_lines,
            "traces_validated_against_impl": total_traces,
            "trace_lines": total_lines,
            "scripts_exhaustive": len(ex), "scripts_simulated": len(sim), "scripts_attack": len(attack),
            "scripts_random_large": 2 * nr,
            "exhaustive": True,
            "generation_cfg": gcfg,
            "canaries_rejected": 1,
            "samples": [scripts[0], sim[0], head],
        })
        rcode = v.finish()
        vlib.write_evidence(pid, tier, "model_checking", cov, ASSUME, time.time() - t0, len(v.violations))
        return rcode
    finally:
        shutil.rmtree(work, ignore_errors=True)


def signature(replay_path):
    ops = []
    with open(replay_path) as f:
        for ln in f:
            d = json.loads(ln)
            if d.get("ev") == "op":
                ops.append(d["o"])
    return ",".join(ops)


def canary(trace, work):
    out = os.path.join(work, "canary.ndjson")
    done = False
    n = 0
    with open(trace) as f, open(out, "w") as g:
        for ln in f:
            n += 1
            if n > 20000 and done:
                break
            if not done:
                d = json.loads(ln)
                if d.get("ev") == "op" and d.get("o") == "read" and d["disk"].get("bs"):
                    d["disk"]["bs"][0] = d["disk"]["bs"][0] + 1
                    ln = json.dumps(d) + "\n"
                    done = True
            g.write(ln)
    if not done:
        raise vlib.Inconclusive("no read with data in trace for the canary")
    return out
