"""C14, C15 - playlist Marshal / Unmarshal.  (spec/M3U8.tla, M3U8Trace.tla; harness m3u8drv)"""
import json
import os
import random
import re
import shutil
import tempfile
import time

import vlib

ASSUME = [
    "documented field requirements of the playlist structs: required fields set; once a segment carries a key every later "
    "segment carries one (possibly METHOD=NONE); renditions obey the TYPE-specific required / forbidden attributes; "
    "a server-control value has at least one attribute; FRAME-RATE on the 0.001 grid; durations on the 10 us grid",
    "strings without double quotes / line breaks; titles without surrounding blanks",
    "arbitrary-byte robustness of the decoder is sampled by token-level malformations and the repository's corpora, "
    "not by coverage-guided fuzzing (stated limit, DESIGN section 9)",
]


def values(work):
    g = vlib.tlc("MCM3U8", "Gen_m3u8.cfg", timeout=600, quiet=True)
    vals = vlib.hist_lines(g.out)
    if not vals:
        raise vlib.Inconclusive("no abstract values generated: " + g.out[-1500:])
    p = os.path.join(work, "values.json")
    with open(p, "w") as f:
        json.dump(vals, f)
    return p, vals


def cfg_with(invs, strict, work):
    src = open(os.path.join(vlib.SPEC, "Trace_m3u8_strict.cfg" if strict else "Trace_m3u8.cfg")).read()
    lines = [ln for ln in src.splitlines() if not ln.startswith("INVARIANTS")]
    lines.append("INVARIANTS " + " ".join(invs))
    name = "Trace_m3u8_%s_%s.cfg" % ("s" if strict else "t", "_".join(i[:7] for i in invs))
    with open(os.path.join(vlib.SPEC, name), "w") as f:
        f.write("\n".join(lines) + "\n")
    return name


def line_of(trace, r):
    try:
        return json.loads(open(trace).readlines()[r.depth - 2])
    except Exception:
        return {}


def run(pid, tier, replay):
    t0 = time.time()
    v = vlib.Verdict(pid)
    binary = vlib.build_harness()
    work = tempfile.mkdtemp(prefix="vm3u8_")
    try:
        invs = ["C14_RoundTrip"] if pid == "C14" else ["C15_MarshalGrammatical", "C15_MuxerGrammatical", "C15_DecoderTotal"]
        if replay:
            r, _ = vlib.validate_trace("M3U8Trace", cfg_with(invs, False, work), replay)
            if r.kind == "invariant":
                v.violation("%s fails on replay" % r.violated, replay)
            return v.finish()

        # design: Decode(Encode(p)) = p and Grammar(Encode(p)) for every abstract value; weakened encoder refuted
        d1 = vlib.tlc_must_pass("MCM3U8", "MC_m3u8.cfg", timeout=600)
        d2 = vlib.tlc("MCM3U8", "MC_m3u8_weak.cfg", timeout=600, quiet=True)
        weak = vlib.hist_lines(d2.out, tag="ATTACK")
        if not weak:
            raise vlib.Inconclusive("the weakened encoder (no EXT-X-START, leading comma) was not refuted")
        vp, vals = values(work)
        inst = (3 if tier == "quick" else 40)
        tr = os.path.join(work, "cases.ndjson")
        rc, out, dt = vlib.drive(binary, ["m3u8-values", "-values", vp, "-out", tr, "-inst", str(inst), "-seed", str(vlib.seed())], timeout=3000)
        if rc != 0:
            raise vlib.Inconclusive("m3u8-values failed: " + out[-2000:])
        traces = [("cases", tr)]
        if pid == "C15":
            td = os.path.join(work, "dec.ndjson")
            rc, out, dt = vlib.drive(binary, ["m3u8-decoder", "-values", vp, "-out", td, "-per", "4" if tier == "quick" else "40",
                                              "-seed", str(vlib.seed())], timeout=3000)
            if rc != 0:
                raise vlib.Inconclusive("m3u8-decoder failed: " + out[-2000:])
            traces.append(("dec", td))
            # playlists served by real muxers
            from props import muxer, muxgen
            rnd = random.Random(vlib.seed() * 31 + 15)
            scs = muxgen.general(rnd, 48 if tier == "quick" else 400, (30, 100)) + muxgen.track_lists(rnd, 32 if tier == "quick" else 300)
            tm = muxer.replay_sharded(binary, scs, work, "mux", ["-noemit", "-tokens"])
            traces.append(("mux", tm))
        lines = cases = states = drift = 0
        samples = []
        for tag, path in traces:
            n = vlib.count_lines(path)
            lines += n
            r, _ = vlib.validate_trace("M3U8Trace", cfg_with(invs, False, work), path, timeout=1800)
            states += r.distinct
            m = re.findall(r'<<"DRIFT", (\d+)>>', r.out)
            if m:
                drift += int(m[-1])
            if r.kind == "invariant":
                bad = line_of(path, r)
                rp = os.path.join(vlib.REPLAYS, "%s-seed%d-%s.ndjson" % (pid, vlib.seed(), tag))
                os.makedirs(vlib.REPLAYS, exist_ok=True)
                with open(rp, "w") as f:
                    f.write(json.dumps({"ev": "reset"}) + "\n" + json.dumps(bad) + "\n")
                what = {k: bad.get(k) for k in ("ev", "src", "diff", "eq", "fix", "kind", "panic", "ok", "post", "msg", "variants") if k in bad}
                v.violation("%s: %s value=%s" % (r.violated, what, json.dumps(bad.get("p"))[:400]), rp,
                            signature="%s:%s" % (r.violated, json.dumps(bad.get("diff", ""))))
            elif r.kind != "ok" or r.depth != n + 1:
                raise vlib.Inconclusive("trace %s not consumed: %s\n%s" % (tag, r.kind, r.out[-1500:]))
            elif pid == "C15" and tag == "cases":
                # strict grammar: the one tolerated deviation is a recorded finding
                rs, _ = vlib.validate_trace("M3U8Trace", cfg_with(["C15_MarshalGrammatical"], True, work), path, timeout=1800)
                if rs.kind == "invariant":
                    bad = line_of(path, rs)
                    rp = os.path.join(vlib.REPLAYS, "%s-seed%d-strict.ndjson" % (pid, vlib.seed()))
                    os.makedirs(vlib.REPLAYS, exist_ok=True)
                    with open(rp, "w") as f:
                        f.write(json.dumps({"ev": "reset"}) + "\n" + json.dumps(bad) + "\n")
                    v.violation("Marshal writes the BYTERANGE attribute of EXT-X-PART / EXT-X-MAP unquoted (RFC 8216: quoted-string)",
                                rp, signature="unquoted-byterange")
            with open(path) as f:
                for ln in f:
                    d = json.loads(ln)
                    if d.get("ev") in ("case", "dec", "tok"):
                        d.pop("tokens", None)
                        samples.append(d)
                        break
        cov = {
            "states": d1.distinct + states, "transitions": d1.generated + lines,
            "traces_validated_against_impl": lines,
            "abstract_values": len(vals), "instantiations_per_value": inst,
            "design": {"MC_m3u8.cfg": [d1.distinct, d1.generated], "weakened_encoder_values_refuted": len(weak)},
            "conformance": {"token_shape_mismatches": drift, "note": "real Marshal token shapes vs Encode(p)"},
            "exhaustive": True, "samples": samples[:3],
        }
        rcode = v.finish()
        vlib.write_evidence(pid, tier, "model_checking" if pid == "C14" else "fault_enumeration", fix_cov(cov, pid), ASSUME,
                            time.time() - t0, len(v.violations))
        return rcode
    finally:
        shutil.rmtree(work, ignore_errors=True)


def fix_cov(cov, pid):
    if pid == "C15":
        cov["evaluations"] = cov["traces_validated_against_impl"]
        cov["distinct_nontrivial"] = cov["abstract_values"]
        cov["rule"] = ("every abstract value of M3U8.tla instantiated and marshaled (grammar), token-level malformations of each "
                       "(decoder totality), the repository's corpora, playlists served by real muxers; distinct = abstract values")
    return cov
