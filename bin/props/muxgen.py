"""Random write-script generators for the muxer harness (seeded; the quantifier space of C01-C05, C18, C19)."""
import random

VIDEO = ["h264", "vp9", "av1", "h265"]
FPS_DUR = [3750, 3600, 3003, 3000, 1800, 1500, 1501, 6000, 9000]  # 24, 25, 29.97, 30, 50, 60, 59.94, 15, 10 fps at 90 kHz
AAC_RATES = [44100, 48000, 32000, 16000]


def track_sets(variant):
    if variant == "mpegts":
        return [["h264"], ["h264", "aac"], ["aac"], ["aac", "h264"]]
    return [["V"], ["V", "aac"], ["V", "opus"], ["aac"], ["opus"], ["aac", "aac"], ["V", "aac", "opus"], ["aac", "V"], ["V", "aac", "aac"]]


def make_cfg(rnd, variant, tracks=None, seg_min_ms=None, part_min_ms=None, seg_count=None, disk=None, max_size=None, query=None):
    ts = tracks or rnd.choice(track_sets(variant))
    tl = []
    for i, c in enumerate(ts):
        if c == "V":
            c = rnd.choice(VIDEO)
        t = {"codec": c}
        if c == "aac":
            t["rate"] = 44100 if variant == "mpegts" and rnd.random() < 0.5 else rnd.choice(AAC_RATES)
        if c in ("aac", "opus") and rnd.random() < 0.4:
            t["name"] = "n%d" % i
            t["lang"] = rnd.choice(["en", "de", "it"])
        tl.append(t)
    minc = 7 if variant == "ll" else 3
    return {
        "variant": variant, "tracks": tl,
        "segCount": seg_count if seg_count is not None else rnd.choice([minc, minc, minc + 1, 10]),
        "segMinMs": seg_min_ms if seg_min_ms is not None else rnd.choice([300, 500, 1000, 1000, 2000]),
        "partMinMs": part_min_ms if part_min_ms is not None else rnd.choice([50, 100, 200, 200, 500]),
        "maxSize": max_size if max_size is not None else 1000000,
        "disk": (rnd.random() < 0.35) if disk is None else disk,
        "query": query if query is not None else (rnd.choice(["", "", "tok=a1", "a=1&b=2"])),
    }


def rate_of(t):
    if t["codec"] == "aac":
        return t.get("rate", 44100)
    if t["codec"] == "opus":
        return 48000
    return 90000


def gen_steps(rnd, cfg, nwrites, start_s=None, irregular=None, gop=None, changes=None, sizes=(6, 60), vdur=None):
    """Timeline-driven interleaving of all tracks. Video: constant or irregular frame durations, key frames at
    random places, possibly starting mid-GOP, parameter changes on RA and non-RA units. Audio: several AUs per write."""
    variant = cfg["variant"]
    tracks = cfg["tracks"]
    if start_s is None:
        if variant == "mpegts":
            start_s = rnd.choice([0, 0, 1, 37, 1000])
        else:
            start_s = rnd.choice([0, 0, -10, -9.5, -3, 5, 3600, 1234.5])
    irregular = rnd.random() < 0.3 if irregular is None else irregular
    st = []
    for i, t in enumerate(tracks):
        r = rate_of(t)
        s = {"i": i, "rate": r, "dts": int(round(start_s * r)), "codec": t["codec"], "n": 0}
        if t["codec"] in VIDEO:
            s["dur"] = vdur or rnd.choice(FPS_DUR)
            s["gop"] = gop or rnd.choice([1, 2, 5, 10, 10, 25, 30])
            s["midgop"] = rnd.random() < 0.4
            s["gen"] = 1
            s["sent_ps"] = False
            s["change_p"] = (0.08 if changes is None else changes)
        st.append(s)
    # audio tracks may start a little before / after the video
    for s in st:
        if s["codec"] not in VIDEO and len(st) > 1:
            s["dts"] += int(rnd.choice([0, 0, -0.05, 0.03, 0.2]) * s["rate"])
            if variant == "mpegts":
                s["dts"] = max(0, s["dts"])
    steps = []
    while len(steps) < nwrites:
        # next track: the one that is earliest in time, with jitter
        s = min(st, key=lambda x: x["dts"] / x["rate"] + rnd.random() * 0.04)
        if rnd.random() < 0.1:
            s = rnd.choice(st)
        size = rnd.randint(*sizes)
        if s["codec"] in VIDEO:
            k = s["n"]
            first_phase = s["midgop"] and k < rnd.randint(1, 4) and not s["sent_ps"]
            ra = 0 if first_phase else (1 if (k % s["gop"] == 0 or rnd.random() < 0.03) else 0)
            if not s["sent_ps"] and not first_phase:
                ra = 1
            ps = 0
            if ra:
                if rnd.random() < s["change_p"]:
                    s["gen"] = 3 - s["gen"]
                ps = s["gen"] if (not s["sent_ps"] or rnd.random() < 0.8 or s["codec"] != "h264") else 0
                if s["codec"] == "h264" and ps:
                    s["sent_ps"] = True
                if s["codec"] != "h264":
                    s["sent_ps"] = True
                    ps = s["gen"]
            elif s["codec"] == "h264" and s["sent_ps"] and rnd.random() < s["change_p"] / 2:
                # parameter sets on a non-IDR unit: the change stays pending until the next IDR
                s["gen"] = 3 - s["gen"]
                ps = s["gen"]
            steps.append({"t": s["i"], "dts": s["dts"], "ra": ra, "ps": ps, "size": size, "n": 1})
            d = s["dur"]
            if irregular:
                d = rnd.choice([d, d, d // 2, d * 2, d + 1, max(1, d - 7), 90])
                if s["codec"] != "h264" and rnd.random() < 0.04:
                    d = 0          # equal DTS is legal (non-decreasing); H264's DTS extractor rejects it
            s["dts"] += d
            s["n"] += 1
        elif s["codec"] == "aac":
            n = rnd.choice([1, 1, 1, 2, 3, 4])
            steps.append({"t": s["i"], "dts": s["dts"], "ra": 1, "ps": 0, "size": size, "n": n})
            s["dts"] += 1024 * n
            s["n"] += n
        else:
            n = rnd.choice([1, 1, 2, 3])
            dc = [rnd.choice([1, 1, 1, 0, 2, 3]) for _ in range(n)] if irregular else [1] * n
            steps.append({"t": s["i"], "dts": s["dts"], "ra": 1, "ps": 0, "size": size, "n": n, "dc": dc})
            s["dts"] += sum([480, 960, 1920, 2880][c] for c in dc)
            s["n"] += n
    return steps


def general(rnd, n_scripts, nwrites=(40, 160), variants=("mpegts", "fmp4", "ll")):
    out = []
    for i in range(n_scripts):
        v = variants[i % len(variants)]
        cfg = make_cfg(rnd, v)
        # the caller's wall clock is not bound to the media clock: it may step backwards or jump ahead between writes
        if i % 5 == 3:
            cfg["ntpMode"] = "back"
        elif i % 5 == 4:
            cfg["ntpMode"] = "jump"
        out.append({"cfg": cfg, "steps": gen_steps(rnd, cfg, rnd.randint(*nwrites))})
    return out


def long_rotations(rnd, n_scripts, rotations, variants=("mpegts", "fmp4", "ll"), disk=None):
    """Tiny segments so that the window slides many times (C04, C05, C18)."""
    out = []
    for i in range(n_scripts):
        v = variants[i % len(variants)]
        ts = rnd.choice([["V"], ["V", "aac"], ["aac"]] if v != "mpegts" else [["h264"], ["h264", "aac"]])
        cfg = make_cfg(rnd, v, tracks=ts, seg_min_ms=rnd.choice([40, 100]), part_min_ms=rnd.choice([20, 50]), disk=disk)
        gop = rnd.choice([2, 3, 4])
        steps = gen_steps(rnd, cfg, rotations * gop * (2 if len(ts) > 1 else 1), start_s=rnd.choice([0, 0, 5]),
                          irregular=False, gop=gop, changes=0.01, vdur=rnd.choice([3000, 3600, 4500]))
        out.append({"cfg": cfg, "steps": steps})
    return out


def size_limit(rnd, n_scripts):
    """Payload sizes straddling SegmentMaxSize (C18)."""
    out = []
    for i in range(n_scripts):
        v = ("mpegts", "fmp4", "ll")[i % 3]
        ms = rnd.choice([64, 200, 1000])
        ts = rnd.choice([["V"], ["V", "aac"]] if v != "mpegts" else [["h264"], ["h264", "aac"]])
        cfg = make_cfg(rnd, v, tracks=ts, max_size=ms, seg_min_ms=rnd.choice([300, 1000]), part_min_ms=100, query="")
        steps = gen_steps(rnd, cfg, rnd.randint(30, 120), sizes=(6, max(8, ms // 3)), irregular=False, start_s=0)
        out.append({"cfg": cfg, "steps": steps})
    return out


def td_profile(rnd, n_scripts, variants=("mpegts", "fmp4", "ll")):
    """Segments whose rounded durations differ (0.5 s frames, random GOP lengths): the target duration has to grow,
    long segments leave the window again, gaps are still listed while it grows (C03 TargetMonotone, C04)."""
    out = []
    for i in range(n_scripts):
        v = variants[i % len(variants)]
        ts = rnd.choice([["V"], ["V", "aac"]] if v != "mpegts" else [["h264"], ["h264", "aac"]])
        cfg = make_cfg(rnd, v, tracks=ts, seg_min_ms=500, part_min_ms=200, seg_count=(7 if v == "ll" else rnd.choice([3, 4])))
        vt = next(j for j, t in enumerate(cfg["tracks"]) if t["codec"] in VIDEO)
        steps = []
        dts = {j: 0 for j in range(len(cfg["tracks"]))}
        first = True
        nseg = rnd.randint(10, 22)
        plan = [rnd.choice([1, 1, 1, 2, 3, 8]) for _ in range(nseg)]
        if rnd.random() < 0.7:
            k = rnd.randint(0, 3)
            plan[k] = rnd.choice([6, 8])        # a long segment early, short ones afterwards
            for j in range(k + 1, nseg):
                plan[j] = 1
        for g in plan:
            for f in range(g):
                steps.append({"t": vt, "dts": dts[vt], "ra": 1 if f == 0 else 0, "ps": 1 if (f == 0) else 0, "size": 12, "n": 1})
                dts[vt] += 45000
                for j, t in enumerate(cfg["tracks"]):
                    if j == vt:
                        continue
                    r = rate_of(t)
                    while dts[j] * 90000 < dts[vt] * r:
                        steps.append({"t": j, "dts": dts[j], "ra": 1, "ps": 0, "size": 8, "n": 4})
                        dts[j] += 4096
        out.append({"cfg": cfg, "steps": steps})
    return out


# C19 grid: constant sample durations of the leading track
VIDEO_SD = sorted(set([90000 // f for f in (1, 2, 5, 10, 12, 15, 20, 24, 25, 30, 48, 50, 60, 90, 100, 120)] +
                      [3003, 1501, 3753, 1876, 750, 751]))           # incl. 1001-based rates
AAC_SR = [8000, 11025, 12000, 16000, 22050, 24000, 32000, 44100, 48000, 64000, 88200, 96000]
OPUS_DC = [0, 1, 2, 3]


def c19_grid(rnd, n_scripts, full=False):
    """Constant-rate LL streams: frame-rate x PartMinDuration x SegmentMinDuration x key-frame spacing, video-led
    and audio-only. Each script is long enough for several segments."""
    out = []
    pms = list(range(50, 2001, 50))
    n_late = max(12, n_scripts // 8)
    for i in range(n_scripts):
        # the first n_late scripts are always video-led with a late audio track of an odd rate (its unit duration is not
        # compatible with the part duration derived from the frame rate): only the leading track may shape the parts
        late = i < n_late
        kind = "v" if late else rnd.choice(["v", "v", "v", "aac", "opus"])
        pm = rnd.choice(pms) if rnd.random() < 0.6 else rnd.choice([50, 100, 200, 200, 250, 500, 1000])
        if late:
            pm = rnd.choice([100, 150, 200, 200, 250, 500])
        sm = rnd.choice([1000, 2000, 4000])
        if kind == "v":
            sd = rnd.choice([3000, 3600, 1500, 1800, 3003]) if late else rnd.choice(VIDEO_SD)
            codec = rnd.choice(VIDEO)
            cfg = make_cfg(rnd, "ll", tracks=[codec] + (["aac"] if late else rnd.choice([[], [], ["aac"]])), seg_min_ms=sm, part_min_ms=pm,
                           seg_count=7, query="")
            for t in cfg["tracks"]:
                if t["codec"] == "aac":
                    t["rate"] = rnd.choice([16000, 8000, 22050, 11025] if late else [44100, 48000, 16000, 8000, 22050, 32000])
            adelay = rnd.choice([0.5, 0.7, 1.5]) if late else rnd.choice([0, 0, 0.3, 0.7, 1.5])
            rate = 90000
            gop_t = rnd.choice([0.5, 1, 1, 2, 2.5, 4]) * 90000
            gop = max(1, int(round(gop_t / sd)))
        elif kind == "aac":
            sr = rnd.choice(AAC_SR)
            cfg = make_cfg(rnd, "ll", tracks=["aac"], seg_min_ms=sm, part_min_ms=pm, seg_count=7, query="")
            cfg["tracks"][0]["rate"] = sr
            sd, rate, gop = 1024, sr, 1
        else:
            dc = rnd.choice(OPUS_DC)
            cfg = make_cfg(rnd, "ll", tracks=["opus"], seg_min_ms=sm, part_min_ms=pm, seg_count=7, query="")
            sd, rate, gop = [480, 960, 1920, 2880][dc], 48000, 1
        cfg["constSd"] = sd
        # long enough for ~4 segments (and at least a few parts), bounded
        seg_t = max(sm / 1000.0, gop * sd / rate)
        total_t = min(4 * seg_t + 2 * pm / 1000.0, 30.0)
        n = int(total_t * rate / sd) + 2
        n = min(n, 1500)
        steps = []
        d = rnd.choice([0, 0, -5]) * rate
        ad = {}
        # a codec parameter change at a key frame in the middle of some video-led streams (same frame rate before and after:
        # the sample duration stays constant, the parts must stay regular)
        chg_at = (n // 2) if (kind == "v" and i % 4 == 1) else None
        for k in range(n):
            if kind == "v":
                gen = 2 if (chg_at is not None and k >= chg_at) else 1
                steps.append({"t": 0, "dts": d, "ra": 1 if k % gop == 0 else 0, "ps": gen if k % gop == 0 else 0, "size": 8, "n": 1})
                for j, t in enumerate(cfg["tracks"][1:], start=1):
                    r = rate_of(t)
                    ad.setdefault(j, int((d / rate + adelay) * r))
                    while ad[j] * rate < (d + sd) * r:
                        steps.append({"t": j, "dts": ad[j], "ra": 1, "ps": 0, "size": 6, "n": 2})
                        ad[j] += 2048
            elif kind == "aac":
                steps.append({"t": 0, "dts": d, "ra": 1, "ps": 0, "size": 6, "n": 1})
            else:
                steps.append({"t": 0, "dts": d, "ra": 1, "ps": 0, "size": 6, "n": 1, "dc": [dc]})
            d += sd
        out.append({"cfg": cfg, "steps": steps})
    return out


def track_lists(rnd, n_scripts):
    """C16: track lists Start accepts (any order of video / audio, 1..4 tracks, names / languages / default flags
    set or not, also IsDefault on the video track), each fed a short stream with a parameter change and a query."""
    out = []
    for i in range(n_scripts):
        v = ("fmp4", "ll", "mpegts")[i % 3] if i % 5 else "fmp4"
        if v == "mpegts":
            ts = rnd.choice([["h264"], ["h264", "aac"], ["aac"], ["aac", "h264"]])
        else:
            na = rnd.randint(0, 3)
            ts = [rnd.choice(["aac", "opus"]) for _ in range(na)]
            if rnd.random() < 0.7 or not ts:
                ts.insert(rnd.randint(0, len(ts)), "V")
        cfg = make_cfg(rnd, v, tracks=ts, seg_min_ms=rnd.choice([200, 500]), part_min_ms=100,
                       query=rnd.choice(["", "tok=a1", "a=1&b=2"]))
        auds = [t for t in cfg["tracks"] if t["codec"] in ("aac", "opus")]
        if auds and rnd.random() < 0.5:
            rnd.choice(auds)["def"] = True
        for t in cfg["tracks"]:
            if t["codec"] in VIDEO and rnd.random() < 0.25:
                t["def"] = True        # documented as "for audio renditions only": must be ignored
        steps = gen_steps(rnd, cfg, rnd.randint(30, 70), start_s=0, irregular=False, gop=rnd.choice([3, 5]), changes=0.25,
                          vdur=rnd.choice([9000, 4500]))
        out.append({"cfg": cfg, "steps": steps})
    return out


def zero_duration_segment(rnd, n_scripts):
    """A forced cut (parameter change) on a random-access unit whose DTS equals that of the unit that opened the
    segment: a published segment of duration zero (legal input: DTS is non-decreasing; VP9 / AV1 have no DTS check)."""
    out = []
    for i in range(n_scripts):
        v = ("fmp4", "ll")[i % 2]
        codec = rnd.choice(["vp9", "av1"])
        cfg = make_cfg(rnd, v, tracks=[codec] + rnd.choice([[], ["aac"]]), seg_min_ms=500, part_min_ms=100, query="")
        steps, d, gen = [], 0, 1
        k = rnd.randint(2, 5)
        for seg in range(8):
            steps.append({"t": 0, "dts": d, "ra": 1, "ps": gen, "size": 20, "n": 1})
            if seg == k:
                gen = 3 - gen
                steps.append({"t": 0, "dts": d, "ra": 1, "ps": gen, "size": 20, "n": 1})   # same DTS, new parameters
            for f in range(5):
                d += 9000
                steps.append({"t": 0, "dts": d, "ra": 0, "ps": 0, "size": 20, "n": 1})
            d += 9000
        out.append({"cfg": cfg, "steps": steps})
    return out
