CONSTANTS
  MaxPush = 3
  N = 1
  WaitCaptures = FALSE
  PullCaptures = TRUE
  Alternate = FALSE
  MaxCmds = 12
  Emit = FALSE
  Record = TRUE
INIT Init
NEXT Next
INVARIANTS NoLostOrPrint
CHECK_DEADLOCK FALSE
