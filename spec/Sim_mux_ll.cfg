CONSTANTS
  Variant = "ll"
  TrackKinds <- TK_VA
  SegCount = 7
  SegMin = 80
  PartMin = 50
  MaxSize = 1000
  Deltas <- D2040
  VKinds <- VK3
  AudioDur = 20
  Sizes <- S1
  MaxWrites = 60
  MaxAU = 1
  StartDts = 0
  MinAUc = 2
  Emit = TRUE
  ConstSd = 0
  NGaps = 7
  WeakVariant = ""
INIT Init
NEXT Next
CONSTRAINT Leaf
CHECK_DEADLOCK FALSE
