\* exhaustive design check: disk shape refines the abstract file (repaired tree: Finalize truncates)
CONSTANTS
  MaxParts = 2
  MaxLen = 4
  MaxOps = 7
  MaxReaders = 1
  TruncateAtFinalize = TRUE
  Emit = FALSE
  WriteSet <- MCWriteSet
  SeekSet <- MCSeekSet
  ReadSizes <- MCReadSizes
INIT Init
NEXT Next
VIEW View
INVARIANTS TypeOK DiskRefines ReadersSeeCurrent SizeIsTotal
CHECK_DEADLOCK FALSE
