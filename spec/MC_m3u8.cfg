CONSTANTS
  StartWritten = TRUE
  DiscSeqOwnValue = TRUE
  TolerateUnquotedByteRange = TRUE
  ServerControlJoin = TRUE
  Emit = FALSE
INIT Init
NEXT Next
INVARIANTS RoundTrip Grammatical
CHECK_DEADLOCK FALSE
