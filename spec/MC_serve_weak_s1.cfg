CONSTANTS
  SegCount = 3
  NumGaps = 2
  MaxSegs = 3
  MaxPartsPerSeg = 3
  Handlers <- H2
  Reqs <- RSmall
  StreamClosedUnderLock = TRUE
  HintUnlocksOnClosed = FALSE
  RolloverChecksOpen = TRUE
  GapIsContent = TRUE
  MaxCmds = 9
  Record = TRUE
  CloseAfter = 0
  Emit = FALSE
INIT Init
NEXT Next
INVARIANTS AttackC07
CHECK_DEADLOCK FALSE
