------------------------------ MODULE MuxMonitor ------------------------------
(***************************************************************************)
(* Property predicates of the muxer family (C01-C05, C18) as an online     *)
(* monitor over OBSERVATION RECORDS.  One step = one Write call: the       *)
(* written units (input) and what an HTTP client could observe afterwards  *)
(* (abstract media playlists of every stream, newly listed fragments       *)
(* decoded to units, probes of known URIs, directory listing).             *)
(*                                                                         *)
(* The same operators are used twice (DESIGN section 2):                   *)
(*  - HlsMuxer.tla feeds them Render(model state)  -> design check by TLC   *)
(*  - MuxTrace.tla feeds them what the real Muxer served -> verdict         *)
(* Everything is functional: the monitor state is one record `m`.          *)
(* Times are in ticks of the leading track unless a field says otherwise.  *)
(***************************************************************************)
EXTENDS Integers, Sequences, FiniteSets, TLC

Max(a, b) == IF a > b THEN a ELSE b
Min(a, b) == IF a < b THEN a ELSE b
Abs(a) == IF a < 0 THEN -a ELSE a

RECURSIVE CatSeq(_)
CatSeq(ss) == IF ss = <<>> THEN <<>> ELSE Head(ss) \o CatSeq(Tail(ss))

RECURSIVE SumSeq(_)
SumSeq(s) == IF s = <<>> THEN 0 ELSE Head(s) + SumSeq(Tail(s))

Last(s) == s[Len(s)]
DropN(s, n) == IF n >= Len(s) THEN <<>> ELSE SubSeq(s, n + 1, Len(s))
SelectSeqIdx(s, P(_)) == {i \in 1..Len(s) : P(s[i])}

-----------------------------------------------------------------------------
(* configuration helpers (cfg is the "reset" record of a trace / the model constants) *)

NT(cfg) == Len(cfg.tracks)
NS(cfg) == Len(cfg.streams)
IsLead(cfg, t) == t = cfg.lead
Off(cfg, t) == cfg.tracks[t].off
\* 7 gap entries precede the first Low-Latency segment (small models override the number)
NumGaps(cfg) == IF cfg.variant # "ll" THEN 0 ELSE IF "numGaps" \in DOMAIN cfg THEN cfg.numGaps ELSE 7
FirstSegId(cfg) == NumGaps(cfg)
NoEmit(cfg) == "noemit" \in DOMAIN cfg /\ cfg.noemit = 1   \* fragments are not decoded in this trace
AudioOnlyTS(cfg) == cfg.variant = "mpegts" /\ cfg.tracks[cfg.lead].k = "a"
MinAU(cfg) == IF "minAU" \in DOMAIN cfg THEN cfg.minAU ELSE 100
StreamOfTrack(cfg, t) == CHOOSE s \in 1..NS(cfg) : \E i \in 1..Len(cfg.streams[s].tracks) : cfg.streams[s].tracks[i] = t

\* container time of a written unit: + offset (fMP4: 10 s in the track's own timescale), MPEG-TS: 90 kHz
\* (num/den is the reduced fraction 90000/rate, logged by the harness)
ContainerDts(cfg, t, dts) ==
  IF cfg.variant = "mpegts"
  THEN LET n == cfg.tracks[t].tsnum
           d == cfg.tracks[t].tsden
       IN (dts \div d) * n + ((dts % d) * n) \div d
  ELSE dts + Off(cfg, t)

-----------------------------------------------------------------------------
(* flattening of the emitted fragments *)

TrUnits(fr, t) == CatSeq([i \in 1..Len(fr.tr) |-> IF fr.tr[i].t = t THEN fr.tr[i].u ELSE <<>>])
EmUnits(em, t) == CatSeq([i \in 1..Len(em.frags) |-> TrUnits(em.frags[i], t)])
AllUnits(emits, t) == CatSeq([i \in 1..Len(emits) |-> EmUnits(emits[i], t)])

-----------------------------------------------------------------------------
(* monitor state *)

MonInit(cfg) ==
  [ pend     |-> [t \in 1..NT(cfg) |-> <<>>],   \* accepted units not yet seen in a listed fragment
    begun    |-> [t \in 1..NT(cfg) |-> FALSE],  \* first emission of the track seen
    startId  |-> 0,                             \* id of the stream's start unit (leading track), 0 = not yet
    nlead    |-> 0,                             \* accepted leading writes since (and including) the start unit
    created  |-> FALSE,                         \* the first segment exists (after the look-ahead write)
    firstAfter |-> [t \in 1..NT(cfg) |-> 0],    \* first unit of t offered once `created`
    expB     |-> <<>>,                          \* expected segment boundaries (C02), recent ones
    expBase  |-> 0,                             \* number of boundaries pruned from expB
    segStart |-> 0, segCnt |-> 0, pendChg |-> FALSE, gen |-> 1,
    lq       |-> <<>>,                          \* recent leading units [id, dts, ra, ntp] (offered order)
    pfu      |-> <<>>,                          \* recent fragments of the leading stream [kind, id, first, last]
    pp       |-> [s \in 1..NS(cfg) |-> [ok |-> 0]],  \* previous playlist of each stream
    cp       |-> [s \in 1..NS(cfg) |-> [ok |-> 0]],
    lastPart |-> [s \in 1..NS(cfg) |-> -1],
    maxTd    |-> 0,
    segsz    |-> <<>>,                          \* payload bytes per (stream, segment) seen so far (recent)
    mvServed |-> FALSE,
    refD     |-> 0,                             \* C19: duration of the first non-final part seen
    refPT    |-> 0,
    werr     |-> FALSE,                         \* a Write returned an error: the trace has ended
    dbg      |-> <<>>,
    f        |-> [c01 |-> TRUE, c02 |-> TRUE, c03 |-> TRUE, c04 |-> TRUE, c05 |-> TRUE, c18 |-> TRUE, c19 |-> TRUE, c16 |-> TRUE] ]

-----------------------------------------------------------------------------
(* C01: every accepted unit comes out once, in order, unchanged, from the start point on *)

\* what the container must say about a written unit `w` (next written unit `nx` or <<>>)
UnitMatches(cfg, t, w, nx, u) ==
  /\ u.id = w.id /\ u.same = 1
  /\ IF cfg.variant = "mpegts" /\ cfg.tracks[t].k = "a"
     THEN Abs(u.dts - ContainerDts(cfg, t, w.dts)) <= 1      \* several AUs share one PES time stamp
     ELSE u.dts = ContainerDts(cfg, t, w.dts)
  /\ u.off = 0
  /\ (cfg.variant # "mpegts") =>
        /\ u.sync = w.ra
        /\ (nx # <<>> => u.dur = nx[1].dts - w.dts)

\* leading track: the start unit is the first random-access unit whose container time is not negative
IsStartCandidate(cfg, t, w) == w.ra = 1 /\ (cfg.variant = "mpegts" \/ w.dts + Off(cfg, t) >= 0)

RECURSIVE Consume(_, _, _, _)
Consume(cfg, t, p, us) ==
  IF us = <<>> THEN [ok |-> TRUE, p |-> p]
  ELSE IF p = <<>> THEN [ok |-> FALSE, p |-> p]
  ELSE IF UnitMatches(cfg, t, Head(p), Tail(p), Head(us)) THEN Consume(cfg, t, Tail(p), Tail(us))
  ELSE [ok |-> FALSE, p |-> p]

\* drop the legitimately skipped prefix when a track begins
BeginTrack(cfg, m, t, p, us) ==
  LET f  == Head(us).id
      ix == {i \in 1..Len(p) : p[i].id = f}
  IN IF ix = {} THEN [ok |-> FALSE, p |-> p]
     ELSE LET i == CHOOSE j \in ix : TRUE
              legal == IF IsLead(cfg, t) THEN f = m.startId
                       ELSE (m.firstAfter[t] = 0 \/ f <= m.firstAfter[t])
          IN [ok |-> legal, p |-> DropN(p, i - 1)]

C01Track(cfg, m, t, emits) ==
  LET us == AllUnits(emits, t)
      p0 == m.pend[t]
  IN IF us = <<>> THEN [ok |-> TRUE, p |-> p0, begun |-> m.begun[t]]
     ELSE LET b == IF m.begun[t] THEN [ok |-> TRUE, p |-> p0] ELSE BeginTrack(cfg, m, t, p0, us)
              c == IF b.ok THEN Consume(cfg, t, b.p, us) ELSE b
          IN [ok |-> c.ok, p |-> c.p, begun |-> TRUE]

\* every fragment decodes, carries only known tracks, MPEG-TS segments begin with PAT/PMT
EmitsWellFormed(cfg, emits) ==
  \A i \in 1..Len(emits) :
     /\ emits[i].st = 200 /\ emits[i].derr = 0
     /\ \A j \in 1..Len(emits[i].frags) :
          /\ \A k \in 1..Len(emits[i].frags[j].tr) : emits[i].frags[j].tr[k].t >= 1
          /\ (cfg.variant = "mpegts" => emits[i].frags[j].pat = 1)
          \* fMP4: the fragment's sequence number is the part id (LL) - C05
          /\ (cfg.variant = "ll" /\ emits[i].kind = "part") => emits[i].frags[j].seq = emits[i].id

\* leading track completeness: nothing older than the end of the newest listed segment is still pending
RECURSIVE SumDur(_)
SumDur(ent) == IF ent = <<>> THEN 0 ELSE Head(ent).dur + SumDur(Tail(ent))

-----------------------------------------------------------------------------
(* input side: start point and expected segment boundaries (C02 "exactly when due") *)

\* one accepted unit of the leading track
LeadOffer(cfg, m, w, firstOfWrite) ==
  LET chg  == (w.ps # 0 /\ w.ps # m.gen)
      gen2 == IF w.ps # 0 THEN w.ps ELSE m.gen
  IN IF m.startId = 0
     THEN IF IsStartCandidate(cfg, cfg.lead, w)
          THEN [m EXCEPT !.startId = w.id, !.nlead = 1,
                         !.created = (cfg.variant = "mpegts"),
                         !.expB = <<[id |-> w.id, dts |-> w.dts, ntp |-> w.ntp, ra |-> w.ra, gen |-> gen2]>>,
                         !.segStart = w.dts, !.segCnt = 1, !.pendChg = FALSE, !.gen = gen2,
                         !.lq = <<[id |-> w.id, dts |-> w.dts, ra |-> w.ra, ntp |-> w.ntp]>>]
          ELSE [m EXCEPT !.gen = gen2]        \* units before the start point only update the parameters
     ELSE LET pc   == m.pendChg \/ chg
              due  == /\ w.ra = 1
                      /\ \/ pc /\ cfg.tracks[cfg.lead].k = "v"
                         \/ /\ w.dts - m.segStart >= cfg.segMin
                            \* audio-only MPEG-TS: only a Write call can start a segment, after MinAU calls
                            /\ (AudioOnlyTS(cfg) => (firstOfWrite /\ m.segCnt >= MinAU(cfg)))
              e    == [id |-> w.id, dts |-> w.dts, ntp |-> w.ntp, ra |-> w.ra, gen |-> gen2]
          IN [m EXCEPT !.nlead = m.nlead + 1,
                       !.created = TRUE,
                       !.gen = gen2,
                       !.pendChg = IF w.ra = 1 THEN FALSE ELSE pc,
                       !.expB = IF due THEN Append(m.expB, e) ELSE m.expB,
                       !.segStart = IF due THEN w.dts ELSE m.segStart,
                       !.segCnt = IF due THEN 1 ELSE IF firstOfWrite THEN m.segCnt + 1 ELSE m.segCnt,
                       !.lq = IF NoEmit(cfg) THEN <<>> ELSE Append(m.lq, [id |-> w.id, dts |-> w.dts, ra |-> w.ra, ntp |-> w.ntp])]

RECURSIVE OfferUnits(_, _, _, _, _)
OfferUnits(cfg, m, t, us, first) ==
  IF us = <<>> THEN m
  ELSE LET w  == Head(us)
           m1 == [m EXCEPT !.pend[t] = IF NoEmit(cfg) THEN <<>> ELSE Append(m.pend[t], w),
                           !.firstAfter[t] = IF m.created /\ m.firstAfter[t] = 0 /\ ~IsLead(cfg, t)
                                                /\ (cfg.variant = "mpegts" \/ w.dts + Off(cfg, t) >= 0)
                                             THEN w.id ELSE m.firstAfter[t]]
           m2 == IF IsLead(cfg, t) THEN LeadOffer(cfg, m1, w, first) ELSE m1
       IN OfferUnits(cfg, m2, t, Tail(us), FALSE)

-----------------------------------------------------------------------------
(* observed boundaries: first leading unit of each listed fragment of the leading stream *)

FragFirstLast(cfg, em) ==
  LET us == EmUnits(em, cfg.lead)
  IN IF us = <<>> THEN [kind |-> em.kind, id |-> em.id, first |-> 0, last |-> 0]
     ELSE [kind |-> em.kind, id |-> em.id, first |-> us[1].id, last |-> Last(us).id]

NewFrags(cfg, emits) ==
  LET idx == {i \in 1..Len(emits) : emits[i].s = cfg.leadStream}
  IN [k \in 1..Cardinality(idx) |->
        FragFirstLast(cfg, emits[CHOOSE i \in idx : Cardinality({j \in idx : j < i}) = k - 1])]

FragOf(pfu, kind, id) ==
  LET ix == {i \in 1..Len(pfu) : pfu[i].kind = kind /\ pfu[i].id = id}
  IN IF ix = {} THEN [kind |-> kind, id |-> id, first |-> -1, last |-> -1] ELSE pfu[CHOOSE i \in ix : TRUE]

LqOf(lq, id) ==
  LET ix == {i \in 1..Len(lq) : lq[i].id = id}
  IN IF ix = {} THEN [id |-> -1, dts |-> 0, ra |-> 0, ntp |-> 0] ELSE lq[CHOOSE i \in ix : TRUE]

\* first leading unit of listed segment entry e of the leading stream (0 if not known)
SegFirstUnit(cfg, pfu, e) ==
  IF cfg.variant = "ll"
  THEN IF e.parts = <<>> THEN -1 ELSE FragOf(pfu, "part", e.parts[1].id).first
  ELSE FragOf(pfu, "seg", e.id).first

\* expected boundary unit of segment id k
ExpBOf(cfg, m, k) ==
  LET j == k - FirstSegId(cfg) + 1 - m.expBase
  IN IF j >= 1 /\ j <= Len(m.expB) THEN m.expB[j] ELSE [id |-> -1, dts |-> 0, ntp |-> 0, ra |-> 0, gen |-> 0]

-----------------------------------------------------------------------------
(* C02 / C03 on one playlist of the leading stream *)

RoundSec(cfg, d) == (2 * d + cfg.ups) \div (2 * cfg.ups)
CeilMs(cfg, d) == (1000 * d + cfg.ups - 1) \div cfg.ups

RealEntries(pl) == SelectSeq(pl.ent, LAMBDA e : e.gap = 0)

C02Leading(cfg, m, pl) ==
  \A i \in 1..Len(pl.ent) :
    LET e == pl.ent[i] IN
    e.gap = 0 =>
      LET fu == SegFirstUnit(cfg, m.pfu, e)
          xb == ExpBOf(cfg, m, e.id)
      IN \* StartsRA + CutExactlyWhenDue: the segment begins with the unit the rule designates
         (fu > 0 /\ xb.id > 0) => (fu = xb.id /\ xb.ra = 1)

\* C02 InitFollowsParams: the init segment declares exactly the stream's tracks with their timescales; once the
\* first complete segment with changed parameters is listed and no change is pending it carries those parameters
InitOK(cfg, m, lp, inits) ==
  \A s \in 1..NS(cfg) :
    LET it == inits[s]
        ts == cfg.streams[s].tracks
        real == IF lp.ok = 1 THEN RealEntries(lp) ELSE <<>>
        xb == IF real = <<>> THEN [id |-> -1, gen |-> 0] ELSE ExpBOf(cfg, m, Last(real).id)
    IN /\ it.ok \in {0, 1}
       /\ (it.ok = 1) =>
            /\ it.ct = 1
            /\ Len(it.tracks) = Len(ts)
            /\ \A i \in 1..Len(ts) :
                 /\ it.tracks[i].t = ts[i]
                 /\ it.tracks[i].scale = cfg.tracks[ts[i]].rate
                 \* "no further change pending": the parameters written last are those the last listed segment began with
                 /\ (cfg.tracks[ts[i]].k = "v" /\ ~m.pendChg /\ xb.id > 0 /\ m.gen = xb.gen) => it.tracks[i].gen = xb.gen
                 /\ (cfg.tracks[ts[i]].k = "a") => it.tracks[i].gen = 1

C03Entry(cfg, m, pl, e) ==
  LET xb == ExpBOf(cfg, m, e.id)
      xn == ExpBOf(cfg, m, e.id + 1)
  IN /\ (xb.id > 0 /\ xn.id > 0) => e.dur = xn.dts - xb.dts            \* ExtinfIsMediaTime
     /\ (e.ntp >= 0 /\ xb.id > 0) => Abs(e.ntp - xb.ntp) <= 1           \* DateTimeIsFirstUnit
     /\ (e.parts # <<>>) => SumSeq([i \in 1..Len(e.parts) |-> e.parts[i].dur]) = e.dur   \* PartsSumToSegment
     /\ pl.td >= RoundSec(cfg, e.dur)                                    \* TargetGE
     /\ \A i \in 1..Len(e.parts) : pl.pt >= CeilMs(cfg, e.parts[i].dur)  \* PartTargetGE

\* duration of a listed part from the media: first unit of the next fragment minus its own first unit
PartDurOK(cfg, m, p) ==
  LET fr == FragOf(m.pfu, "part", p.id)
      a  == LqOf(m.lq, fr.first)
      b  == LqOf(m.lq, fr.last + 1)
  IN (fr.first > 0 /\ a.id > 0 /\ b.id > 0) => p.dur = b.dts - a.dts

C03Playlist(cfg, m, pl, isLeadStream) ==
  /\ \A i \in 1..Len(pl.ent) : pl.ent[i].gap = 0 => C03Entry(cfg, m, pl, pl.ent[i])
  /\ \A i \in 1..Len(pl.ent) : pl.ent[i].gap = 1 => pl.td >= RoundSec(cfg, pl.ent[i].dur)
  /\ \A i \in 1..Len(pl.open) : pl.pt >= CeilMs(cfg, pl.open[i].dur)
  /\ (cfg.variant = "ll") =>
        /\ pl.hb >= 200 * pl.pt /\ pl.pt > 0                              \* HoldBack (hb in 10 us units, pt in ms)
        /\ pl.su >= 6000 * pl.td                                           \* SkipUntil
        /\ pl.cbr = 1
  /\ isLeadStream =>
        /\ \A i \in 1..Len(pl.ent) : \A j \in 1..Len(pl.ent[i].parts) : PartDurOK(cfg, m, pl.ent[i].parts[j])
        /\ \A j \in 1..Len(pl.open) : PartDurOK(cfg, m, pl.open[j])

-----------------------------------------------------------------------------
(* C04: evolution of the playlists of one stream, agreement between streams *)

EntKey(e) == [id |-> e.id, gap |-> e.gap, dur |-> e.dur]

C04Single(cfg, pl) ==
  /\ Len(pl.ent) <= cfg.segCount                                          \* AtMostSegCount
  /\ \A i \in 1..Len(pl.ent) : pl.ent[i].gap = 0 => pl.ent[i].id = pl.msn + i - 1   \* UriNumberIsMSN
  /\ \A i \in 1..Len(pl.ent) : (pl.ent[i].parts # <<>>) => (Len(pl.ent) - i) <= 1   \* PartsOnlyLastTwo
  /\ (cfg.variant # "ll") => (pl.open = <<>> /\ pl.hint = -1 /\ \A i \in 1..Len(pl.ent) : pl.ent[i].parts = <<>>)
  /\ (cfg.variant = "ll") =>
        LET ps == CatSeq([i \in 1..Len(pl.ent) |-> pl.ent[i].parts]) \o pl.open
        IN /\ \A i \in 1..(Len(ps) - 1) : ps[i + 1].id = ps[i].id + 1    \* part ids increase by one
           /\ pl.hint >= 0                                                \* HintPresentAndNext
           /\ (ps # <<>> => pl.hint = Last(ps).id + 1)
  /\ pl.qok = 1 /\ pl.ctok = 1
  /\ (cfg.variant # "mpegts") => pl.map = 1

C04Pair(cfg, p, q) ==      \* p earlier, q later playlist of one stream (both served)
  /\ q.msn >= p.msn                                                        \* MSNMonotone
  \* (no bound on q.msn - p.msn: one Write of several audio access units may rotate more segments than the window holds, so two
  \*  successive observations need not overlap; what overlaps must be identical, which is "removed from the head, appended at the tail")
  /\ \A i \in 1..Len(p.ent) :                                              \* SameMSNSameEntry + tail append
        LET j == p.msn + i - q.msn IN
        (j >= 1) => (j <= Len(q.ent) /\ EntKey(q.ent[j]) = EntKey(p.ent[i]))

C04Agree(cfg, a, b) ==     \* two streams of one muxer at the same instant
  /\ a.msn = b.msn /\ Len(a.ent) = Len(b.ent)
  /\ \A i \in 1..Len(a.ent) : a.ent[i].gap = b.ent[i].gap /\ a.ent[i].dur = b.ent[i].dur /\ a.ent[i].id = b.ent[i].id
  /\ a.td = b.td /\ a.pt = b.pt

-----------------------------------------------------------------------------
(* C05 / C18: probes of every URI seen so far; directory *)

ListedSegIds(pl) == {pl.ent[i].id : i \in {j \in 1..Len(pl.ent) : pl.ent[j].gap = 0}}
AllParts(pl) == CatSeq([i \in 1..Len(pl.ent) |-> pl.ent[i].parts]) \o pl.open

PartIdsOf(pl) ==
  UNION {{pl.ent[i].parts[j].id : j \in 1..Len(pl.ent[i].parts)} : i \in 1..Len(pl.ent)}
    \cup {pl.open[j].id : j \in 1..Len(pl.open)}

ProbeOK(cfg, cps, pr) ==
  LET pl == cps[pr.s] IN
  (pl.ok = 1) =>
  CASE pr.k = "seg" ->
         IF pr.id \in ListedSegIds(pl)
         THEN pr.st = 200 /\ pr.cls = "media" /\ pr.ct = 1 /\ pr.same # 0 /\ pr.seqok # 0   \* ListedResolves, Immutable
         ELSE pr.cls # "media"                                                               \* GoneNeverMedia
    [] pr.k = "part" ->
         IF pr.id \in PartIdsOf(pl)
         THEN pr.st = 200 /\ pr.cls = "media" /\ pr.ct = 1 /\ pr.same # 0 /\ pr.seqok # 0   \* + SeqNoIsPartId
         ELSE (pr.seg >= 0 /\ pr.seg < pl.msn) => pr.cls # "media"     \* parent segment left the window
    [] pr.k = "init" -> pr.st = 200 /\ pr.cls = "media" /\ pr.ct = 1
    [] pr.k = "concat" -> pr.cat = 1                                                       \* SegmentIsConcat
    [] pr.k = "fake" -> pr.cls # "media"
    [] OTHER -> TRUE

C05Probes(cfg, cps, probes) == \A i \in 1..Len(probes) : ProbeOK(cfg, cps, probes[i])

\* C18 on the directory: only files of listed segments and of the open one (per stream)
DirOK(cfg, cps, dir) ==
  \A i \in 1..Len(dir) :
     LET d == dir[i] IN
     /\ d.s >= 1
     /\ (cps[d.s].ok = 1) =>
           (d.id \in ListedSegIds(cps[d.s]) \/ d.id = cps[d.s].msn + Len(cps[d.s].ent))

(* C19: with a constant sample duration of the leading track (cfg.constSd > 0, in ticks) the non-final
   parts are regular.  Non-final = every listed part except the last part of each listed segment; the
   parts of the open segment are all non-final (a part cut by a segment rotation is only listed once its
   segment is complete). *)
NonFinalParts(pl) ==
  CatSeq([i \in 1..Len(pl.ent) |->
            IF pl.ent[i].parts = <<>> THEN <<>> ELSE SubSeq(pl.ent[i].parts, 1, Len(pl.ent[i].parts) - 1)])
    \o pl.open

C19Playlist(cfg, pl, refD) ==     \* refD: duration of the first non-final part ever seen (0 = none yet)
  LET nf == NonFinalParts(pl)
      sd == cfg.constSd
      pm == cfg.partMin
  IN \A i \in 1..Len(nf) :
       LET D == nf[i].dur IN
       /\ (refD > 0 => D = refD)                                   \* EqualNonFinal (whole history)
       /\ D = nf[1].dur
       /\ cfg.msn * D <= pl.pt * cfg.msd                            \* D <= PART-TARGET  (msn/msd = 1000/ups reduced)
       /\ 100 * cfg.msn * D >= 85 * pl.pt * cfg.msd                 \* D >= 0.85 PART-TARGET
       /\ D >= pm                                                   \* AtLeastMin
       /\ D < 2 * Max(pm, sd) + sd                                  \* UpperBound

\* C18 ResolvableLE: what left the window stops resolving
C18Gone(cfg, cps, probes) ==
  \A i \in 1..Len(probes) :
    LET pr == probes[i]
        pl == cps[pr.s]
    IN (pl.ok = 1) =>
         /\ (pr.k = "seg" /\ pr.id \notin ListedSegIds(pl)) => pr.cls # "media"
         /\ (pr.k = "part" /\ pr.id \notin PartIdsOf(pl) /\ pr.seg >= 0 /\ pr.seg < pl.msn) => pr.cls # "media"
         /\ (pr.k = "fake") => pr.cls # "media"

\* C18 PayloadLEMax: media payload per published segment of each stream (sizes as the muxer counts them come
\* with the written units; the units of a fragment are known from decoding it)
SizeOfUnit(p, id) ==
  LET ix == {i \in 1..Len(p) : p[i].id = id}
  IN IF ix = {} THEN 0 ELSE p[CHOOSE i \in ix : TRUE].size

EmitSize(pend, em) ==
  SumSeq(CatSeq([j \in 1..Len(em.frags) |->
     CatSeq([k \in 1..Len(em.frags[j].tr) |->
        IF em.frags[j].tr[k].t >= 1
        THEN [n \in 1..Len(em.frags[j].tr[k].u) |-> SizeOfUnit(pend[em.frags[j].tr[k].t], em.frags[j].tr[k].u[n].id)]
        ELSE <<>>])]))

RECURSIVE AddSizes(_, _, _)
AddSizes(acc, pend, emits) ==
  IF emits = <<>> THEN acc
  ELSE LET em == Head(emits)
           sz == EmitSize(pend, em)
           ix == {i \in 1..Len(acc) : acc[i].s = em.s /\ acc[i].seg = em.seg}
           acc2 == IF ix = {} THEN Append(acc, [s |-> em.s, seg |-> em.seg, size |-> sz])
                   ELSE LET i == CHOOSE j \in ix : TRUE IN [acc EXCEPT ![i].size = acc[i].size + sz]
       IN AddSizes(acc2, pend, Tail(emits))

-----------------------------------------------------------------------------
(* C16: the multivariant playlist *)

IsVideoTrack(cfg, t) == cfg.tracks[t].k = "v"
HasVideo(cfg) == \E t \in 1..NT(cfg) : IsVideoTrack(cfg, t)

\* streams that must appear as EXT-X-MEDIA renditions (fMP4 variants): every non-leading stream, and the
\* leading one too when it is an audio track of a multi-track muxer
IsRenditionStream(cfg, s) ==
  /\ cfg.variant # "mpegts"
  /\ LET t == cfg.streams[s].tracks[1] IN (t # cfg.lead) \/ (cfg.tracks[t].k = "a" /\ NT(cfg) > 1)

RenditionStreams(cfg) == {s \in 1..NS(cfg) : IsRenditionStream(cfg, s)}

\* the rendition that must be DEFAULT: the one whose track the user marked, else the first
DefaultStream(cfg) ==
  LET rs == RenditionStreams(cfg)
      marked == {s \in rs : cfg.tracks[cfg.streams[s].tracks[1]].def = 1}
  IN IF marked # {} THEN CHOOSE s \in marked : TRUE
     ELSE CHOOSE s \in rs : \A x \in rs : s <= x

GenOfTrack(cfg, m, t) == IF t = cfg.lead /\ IsVideoTrack(cfg, t) THEN m.gen ELSE 1

C16MV(cfg, m, mv) ==
  LET expC == {mv.cexp[t][GenOfTrack(cfg, m, t)] : t \in 1..NT(cfg)}
      got  == {mv.codecs[i] : i \in 1..Len(mv.codecs)}
      rs   == RenditionStreams(cfg)
      g    == m.gen
  IN /\ mv.nvar = 1                                              \* OneVariant
     /\ mv.vs = cfg.leadStream /\ mv.vq = 1                      \* VariantURIIsLeading, QueryPreserved
     /\ got = expC /\ Len(mv.codecs) = Cardinality(expC)          \* CodecsListEveryTrackOnce (current generation)
     /\ HasVideo(cfg) =>                                          \* ResolutionFpsOfCurrentGen
           /\ (mv.rexp[g] # "" => mv.res = mv.rexp[g])
           /\ (mv.fexp[g] # "" => mv.fps = mv.fexp[g])
     /\ Len(mv.rend) = Cardinality(rs)                            \* RenditionPerNonLeadingAudio: each exactly once
     /\ {mv.rend[i].s : i \in 1..Len(mv.rend)} = rs
     /\ \A i \in 1..Len(mv.rend) :
           LET r == mv.rend[i] IN
           /\ r.type = "AUDIO" /\ r.group = "audio" /\ mv.audio = "audio"
           /\ r.nameok = 1 /\ r.langok = 1 /\ r.qok = 1
           /\ (r.uri = 1) <=> (r.s # cfg.leadStream)             \* URI unless it is the leading stream
           /\ (r.def = 1) <=> (r.s = DefaultStream(cfg))         \* ExactlyOneDefault
     /\ (rs = {}) => mv.audio = ""
     /\ mv.bw >= mv.abw /\ mv.abw > 0                            \* BandwidthOrder
     /\ mv.bwok # 0                                               \* BandwidthIsPeakMean (single-stream muxers)

-----------------------------------------------------------------------------
(* one monitor step *)

Prune(cfg, m) ==
  LET nb == Len(m.expB) - (cfg.segCount + 4)
      m1 == IF nb > 0 THEN [m EXCEPT !.expB = DropN(m.expB, nb), !.expBase = m.expBase + nb] ELSE m
      np == Len(m1.pfu) - 6 * (cfg.segCount + 3)
      m2 == IF np > 0 THEN [m1 EXCEPT !.pfu = DropN(m1.pfu, np)] ELSE m1
      keepFrom == IF m2.pfu # <<>> /\ m2.pfu[1].first > 0 THEN m2.pfu[1].first ELSE 0
      drop == Cardinality({i \in 1..Len(m2.lq) : m2.lq[i].id < keepFrom})
  IN IF drop > 0 /\ np > 0 THEN [m2 EXCEPT !.lq = DropN(m2.lq, drop)] ELSE m2

HasField(r, f) == f \in DOMAIN r

MonStep(cfg, m, w, want) ==
  IF m.werr THEN m
  ELSE IF w.ok # 1 THEN [m EXCEPT !.werr = TRUE]
  ELSE
  LET m1  == OfferUnits(cfg, m, w.t, w.u, TRUE)
      r   == [t \in 1..NT(cfg) |-> C01Track(cfg, m1, t, w.emit)]
      m2  == [m1 EXCEPT !.pend = [t \in 1..NT(cfg) |-> r[t].p],
                        !.begun = [t \in 1..NT(cfg) |-> r[t].begun],
                        !.pfu = m1.pfu \o NewFrags(cfg, w.emit)]
      cps == w.pl
      lp  == cps[cfg.leadStream]
      served(s) == cps[s].ok = 1
      real == IF served(cfg.leadStream) THEN RealEntries(lp) ELSE <<>>
      xn   == IF real = <<>> THEN [id |-> -1] ELSE ExpBOf(cfg, m2, Last(real).id + 1)
      complete == (xn.id > 0 /\ m2.pend[cfg.lead] # <<>>) => Head(m2.pend[cfg.lead]).id >= xn.id
      c01 == IF "c01" \notin want THEN TRUE ELSE
             /\ EmitsWellFormed(cfg, w.emit)
             /\ \A t \in 1..NT(cfg) : r[t].ok
             /\ complete
      c02 == IF "c02" \notin want THEN TRUE ELSE
             /\ served(cfg.leadStream) => C02Leading(cfg, m2, lp)
             /\ (HasField(w, "init") /\ cfg.variant # "mpegts") => InitOK(cfg, m2, lp, w.init)
      c03 == IF "c03" \notin want THEN TRUE ELSE
             \A s \in 1..NS(cfg) : served(s) =>
                /\ C03Playlist(cfg, m2, cps[s], s = cfg.leadStream)
                /\ (m.cp[s].ok = 1 => cps[s].td >= m.cp[s].td)          \* TargetMonotone
      c04 == IF "c04" \notin want THEN TRUE ELSE
             /\ \A s \in 1..NS(cfg) :
                   /\ cps[s].ok \in {0, 1}                  \* never an error status / unreadable playlist
                   /\ (m.cp[s].ok = 1 => served(s))          \* once served, always served
                   /\ served(s) => C04Single(cfg, cps[s])
                   /\ (served(s) /\ m.cp[s].ok = 1) => C04Pair(cfg, m.cp[s], cps[s])
             /\ \A s \in 1..NS(cfg) : (served(s) /\ served(cfg.leadStream)) => C04Agree(cfg, lp, cps[s])
             /\ \A s \in 1..NS(cfg) : served(s) =>            \* part ids consecutive across the whole history
                   \* (judged when at most two segments were completed since the previous observation: parts are listed under the
                   \*  last two segments only, so a Write that completes three or more segments - several audio access units,
                   \*  tiny segments - creates parts that no observation can see)
                   LET ps == AllParts(cps[s])
                       adv == IF m.cp[s].ok = 1 THEN (cps[s].msn + Len(cps[s].ent)) - (m.cp[s].msn + Len(m.cp[s].ent)) ELSE 0
                   IN (ps # <<>> /\ m.lastPart[s] >= 0 /\ adv <= 2) => ps[1].id <= m.lastPart[s] + 1
      c05 == IF "c05" \notin want THEN TRUE ELSE
             HasField(w, "probe") => C05Probes(cfg, cps, w.probe)
      sz  == AddSizes(m.segsz, m1.pend, w.emit)
      c18 == IF "c18" \notin want THEN TRUE ELSE
             /\ HasField(w, "dir") => DirOK(cfg, cps, w.dir)
             /\ \A s \in 1..NS(cfg) : served(s) => Len(cps[s].ent) <= cfg.segCount
             /\ HasField(w, "probe") => C18Gone(cfg, cps, w.probe)
             /\ \A i \in 1..Len(sz) : sz[i].size <= cfg.maxSize                       \* PayloadLEMax
      isC19 == cfg.variant = "ll" /\ HasField(cfg, "constSd") /\ cfg.constSd > 0 /\ served(cfg.leadStream)
      nfNow == IF isC19 THEN NonFinalParts(lp) ELSE <<>>
      nfPrev == IF isC19 /\ m.cp[cfg.leadStream].ok = 1 THEN NonFinalParts(m.cp[cfg.leadStream]) ELSE <<>>
      c19 == IF "c19" \notin want THEN TRUE ELSE
             isC19 =>
               /\ \A s \in 1..NS(cfg) : served(s) => C19Playlist(cfg, cps[s], m.refD)
               \* PartTargetStable: consecutive playlists that both list a non-final part announce the same PART-TARGET
               /\ (nfNow # <<>> /\ nfPrev # <<>>) => lp.pt = m.cp[cfg.leadStream].pt
      c16 == IF "c16" \notin want \/ ~HasField(w, "mv") THEN TRUE ELSE
               /\ w.mv.ok \in {0, 1} /\ (m.mvServed => w.mv.ok = 1) /\ w.panics = 0
               /\ (w.mv.ok = 1) => C16MV(cfg, m2, w.mv)
      m3  == [m2 EXCEPT !.pp = m.cp, !.cp = cps,
                        !.mvServed = (m.mvServed \/ (HasField(w, "mv") /\ w.mv.ok = 1)),
                        !.refD = IF m.refD = 0 /\ nfNow # <<>> THEN nfNow[1].dur ELSE m.refD,
                        !.segsz = IF Len(sz) > 6 * NS(cfg) THEN DropN(sz, Len(sz) - 6 * NS(cfg)) ELSE sz,
                        !.lastPart = [s \in 1..NS(cfg) |->
                            IF served(s) /\ cfg.variant = "ll"
                            THEN LET ps == AllParts(cps[s]) IN IF ps = <<>> THEN m.lastPart[s] ELSE Max(m.lastPart[s], Last(ps).id)
                            ELSE m.lastPart[s]],
                        !.f = [c01 |-> c01, c02 |-> c02, c03 |-> c03, c04 |-> c04, c05 |-> c05, c18 |-> c18, c19 |-> c19, c16 |-> c16],
                        !.dbg = [wf |-> EmitsWellFormed(cfg, w.emit), tr |-> [t \in 1..NT(cfg) |-> r[t].ok], complete |-> complete]]
  IN Prune(cfg, m3)

=============================================================================
