------------------------------- MODULE Window -------------------------------
(***************************************************************************)
(* The playlist window of one muxer stream, for histories of ANY length    *)
(* (C04 / C18): the arithmetic of muxerStream.rotateSegments as modelled   *)
(* in HlsMuxer.tla (RotateSegmentsS): a finished segment is appended, in   *)
(* Low-Latency mode the very first rotation also inserts NumGaps gap       *)
(* entries in front of it, and when the window exceeds SegmentCount its    *)
(* head is dropped and MEDIA-SEQUENCE advances by one.                     *)
(* IndInv is inductive (Apalache: Init => IndInv, IndInv /\ Next =>        *)
(* IndInv'), so the window laws hold after any number of rotations, not    *)
(* only for the bounded histories TLC and the real traces explore.         *)
(***************************************************************************)
EXTENDS Integers

CONSTANTS
  \* @type: Int;
  SegCount,
  \* @type: Int;
  NumGaps,
  \* @type: Bool;
  Weak        \* TRUE: the head is dropped one rotation too late (vacuity guard: the induction must fail)

ASSUME SegCount >= 1 /\ NumGaps >= 0 /\ NumGaps <= SegCount

VARIABLES
  \* @type: Int;
  del,       \* EXT-X-MEDIA-SEQUENCE = number of entries dropped so far
  \* @type: Int;
  n,         \* entries listed (gap entries included)
  \* @type: Int;
  gaps,      \* gap entries still listed (they are the oldest entries)
  \* @type: Int;
  nextSeg,   \* number of the segment being written (it starts at NumGaps: the gap entries take the numbers below)
  \* @type: Int;
  firstId,   \* id (URI number) of the oldest non-gap entry listed, -1 if none
  \* @type: Bool;
  rotated    \* at least one rotation happened

\* any SegmentCount and any number of gap entries below it
ConstInit == SegCount \in Int /\ NumGaps \in Int /\ SegCount >= 1 /\ NumGaps >= 0 /\ NumGaps <= SegCount /\ Weak = FALSE
ConstInitWeak == SegCount \in Int /\ NumGaps \in Int /\ SegCount >= 1 /\ NumGaps >= 0 /\ NumGaps <= SegCount /\ Weak = TRUE

Init ==
  /\ del = 0 /\ n = 0 /\ gaps = 0 /\ nextSeg = NumGaps /\ firstId = -1 /\ rotated = FALSE

\* one rotation: the open segment (number nextSeg) is finished and listed
Rotate ==
  LET addGaps == IF ~rotated THEN NumGaps ELSE 0
      n1 == n + addGaps + 1
      over == n1 > (IF Weak THEN SegCount + 1 ELSE SegCount)
      \* the dropped head is a gap entry if any gap is listed, else the oldest segment
      dropGap == over /\ (gaps + addGaps) > 0
  IN /\ n' = IF over THEN n1 - 1 ELSE n1
     /\ del' = IF over THEN del + 1 ELSE del
     /\ gaps' = IF dropGap THEN gaps + addGaps - 1 ELSE gaps + addGaps
     /\ firstId' = IF firstId = -1 THEN nextSeg
                   ELSE IF over /\ ~dropGap THEN firstId + 1 ELSE firstId
     /\ nextSeg' = nextSeg + 1
     /\ rotated' = TRUE

Next == Rotate

\* ---- the window laws (C04 / C18) ----
AtMostSegCount == n <= SegCount
\* the listed non-gap entries are the last (n - gaps) segments, numbered consecutively up to nextSeg - 1
IdsConsecutive == (n - gaps > 0) => (firstId + (n - gaps) = nextSeg)
\* URI number = MEDIA-SEQUENCE + index in the list (gap entries occupy the first indices): the same law HlsMuxer.IdsConsistent
\* states for bounded histories and MuxMonitor checks on real playlists
IdIsSequencePlusIndex == (n - gaps > 0) => (firstId = del + gaps)
SequenceLaw == rotated => (del + n = nextSeg)

TypeOK ==
  /\ del >= 0 /\ n >= 0 /\ gaps >= 0 /\ gaps <= n /\ nextSeg >= 0 /\ firstId >= -1

IndInv ==
  /\ TypeOK
  /\ AtMostSegCount
  /\ IdsConsecutive
  /\ SequenceLaw
  /\ IdIsSequencePlusIndex
  /\ (~rotated => nextSeg = NumGaps) /\ (rotated => nextSeg > NumGaps)
  /\ (~rotated => (n = 0 /\ del = 0 /\ gaps = 0 /\ firstId = -1))
  /\ (rotated => (firstId >= 0 /\ n - gaps >= 1))
  /\ gaps <= NumGaps

\* Apalache: the state space of the inductive step
IndInit ==
  /\ del \in Int /\ n \in Int /\ gaps \in Int /\ nextSeg \in Int /\ firstId \in Int /\ rotated \in BOOLEAN
  /\ IndInv
=============================================================================
