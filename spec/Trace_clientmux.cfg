SPECIFICATION TraceSpec
CONSTANTS
  TolerateLLTD0 = TRUE
INVARIANTS C09_Reproduces
POSTCONDITION Post
CHECK_DEADLOCK FALSE
