SPECIFICATION TraceSpec
CONSTANTS
  TolerateForeignAnchor = TRUE
INVARIANTS C09_Reproduces
POSTCONDITION Post
CHECK_DEADLOCK FALSE
