CONSTANT Want = {"c16"}
INIT TraceInit
NEXT TraceNext
INVARIANTS C16_Multivariant
CHECK_DEADLOCK FALSE
