CONSTANT Want = {"c16"}
CONSTANT Conform = FALSE
INIT TraceInit
NEXT TraceNext
INVARIANTS C16_Multivariant
CHECK_DEADLOCK FALSE
