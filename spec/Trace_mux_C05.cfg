CONSTANT Want = {"c05"}
CONSTANT Conform = FALSE
INIT TraceInit
NEXT TraceNext
INVARIANTS C05_URIs
CHECK_DEADLOCK FALSE
