CONSTANT Want = {"c05"}
INIT TraceInit
NEXT TraceNext
INVARIANTS C05_URIs
CHECK_DEADLOCK FALSE
