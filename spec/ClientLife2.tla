----------------------------- MODULE ClientLife2 -----------------------------
(***************************************************************************)
(* Life cycle of a Client reading a multivariant playlist with NStreams    *)
(* media playlists (the leading one + audio renditions): ClientLife.tla    *)
(* generalised to several streams.  What is new with respect to it:        *)
(*   - the primary downloader collects the tracks of the streams ONE AFTER *)
(*     THE OTHER (for _, stream := range streams { select { <-chTracks }}),*)
(*     then calls OnTracks once, then starts the streams one after the     *)
(*     other, then waits for each to end;                                  *)
(*   - every stream downloads its own playlist first;                      *)
(*   - a rendition's processor waits for the leading time converter        *)
(*     (client.waitLeadingTimeConv) before it creates its track            *)
(*     processors; the leading one publishes it with its first segment;    *)
(*   - an error of any stream ends the whole client.                       *)
(* Goroutines: "prim", and per stream j: dl(j), sp(j), tp(j).  State is    *)
(* grouped in records (ctl: client-wide, ss[j]: per stream) to keep the    *)
(* actions readable.                                                       *)
(***************************************************************************)
EXTENDS Integers, Sequences, FiniteSets, TLC

CONSTANTS NStreams, NSeg, Fmp4, Variant, MaxReq,
          ClosePoints, Faults     \* scenario sets (kept small: the state space is the product)

Streams == 1..NStreams
Dl(j) == <<"dl", j>>
Sp(j) == <<"sp", j>>
Tp(j) == <<"tp", j>>
G == {<<"prim", 0>>} \cup {Dl(j) : j \in Streams} \cup {Sp(j) : j \in Streams} \cup {Tp(j) : j \in Streams}
Prim == <<"prim", 0>>
Run == <<"run", 0>>

VARIABLES pc, alive, ret, ctl, ss, scen
vars == <<pc, alive, ret, ctl, ss, scen>>

Ctl0 == [userClosed |-> FALSE, poolCancelled |-> FALSE, result |-> "", outErr |-> <<>>, nreq |-> 0, ndata |-> 0, inCb |-> FALSE,
         k |-> 1,              \* the stream prim is currently collecting tracks from / starting / waiting for
         leadConv |-> FALSE]   \* leading time converter published
SS0 == [queue |-> <<>>, segNo |-> 0, tokens |-> 0, tracksSent |-> FALSE, started |-> FALSE, ended |-> FALSE, tpSpawned |-> FALSE,
        what |-> "pl0"]        \* the request dl(j) is about to issue: pl0 (first playlist) | init | seg | pl

Init ==
  /\ pc = [g \in G \cup {Run} |-> IF g = Run THEN "select" ELSE IF g = Prim THEN "req" ELSE "none"]
  /\ alive = {Prim}
  /\ ret = [g \in G |-> ""]
  /\ ctl = Ctl0
  /\ ss = [j \in Streams |-> SS0]
  /\ scen \in [close : ClosePoints, fault : Faults, tracksErr : BOOLEAN]

CloseAt(p) == scen.close = p
Closed(c, p) == c.userClosed \/ CloseAt(p)

UserCloseAny ==
  /\ CloseAt(<<"any", 0>>) /\ ~ctl.userClosed
  /\ ctl' = [ctl EXCEPT !.userClosed = TRUE]
  /\ UNCHANGED <<pc, alive, ret, ss, scen>>

Return(g, e) == /\ pc' = [pc EXCEPT ![g] = "ret"] /\ ret' = [ret EXCEPT ![g] = e]

(* ---- HTTP ---- *)
HttpArrive(g) ==
  /\ pc[g] = "req"
  /\ ctl' = [ctl EXCEPT !.nreq = ctl.nreq + 1, !.userClosed = Closed(ctl, <<"req", ctl.nreq>>)]
  /\ pc' = [pc EXCEPT ![g] = IF scen.fault[2] = ctl.nreq /\ scen.fault[1] # "none" THEN scen.fault[1] ELSE "resp"]
  /\ UNCHANGED <<alive, ret, ss, scen>>

HttpFail(g) ==
  /\ pc[g] \in {"status", "transport"}
  /\ Return(g, pc[g])
  /\ UNCHANGED <<alive, ctl, ss, scen>>

HttpStall(g) ==
  /\ pc[g] = "stall" /\ ctl.poolCancelled
  /\ Return(g, "cancelled")
  /\ UNCHANGED <<alive, ctl, ss, scen>>

HttpOK(g) ==
  /\ pc[g] = "resp"
  /\ \/ pc' = [pc EXCEPT ![g] = IF g = Prim THEN "spawnDl" ELSE "afterHttp"] /\ ret' = ret
     \/ ctl.poolCancelled /\ Return(g, "cancelled")
  /\ UNCHANGED <<alive, ctl, ss, scen>>

(* ---- prim ---- *)
PrimSpawn ==
  /\ pc[Prim] = "spawnDl"
  /\ alive' = alive \cup {Dl(j) : j \in Streams}
  /\ pc' = [g \in DOMAIN pc |-> IF g = Prim THEN "waitTracks" ELSE IF \E j \in Streams : g = Dl(j) THEN "req" ELSE pc[g]]
  /\ UNCHANGED <<ret, ctl, ss, scen>>

\* chTracks of stream ctl.k
TracksHandoff ==
  /\ pc[Prim] = "waitTracks" /\ pc[Sp(ctl.k)] = "sendTracks"
  /\ pc' = [pc EXCEPT ![Sp(ctl.k)] = "waitStart", ![Prim] = IF ctl.k = NStreams THEN "onTracks" ELSE "waitTracks"]
  /\ ctl' = [ctl EXCEPT !.k = IF ctl.k = NStreams THEN 1 ELSE ctl.k + 1]
  /\ ss' = [ss EXCEPT ![ctl.k].tracksSent = TRUE]
  /\ UNCHANGED <<alive, ret, scen>>

PrimOnTracks ==
  /\ pc[Prim] = "onTracks"
  /\ ctl' = [ctl EXCEPT !.inCb = TRUE, !.userClosed = Closed(ctl, <<"tracks", 0>>)]
  /\ pc' = [pc EXCEPT ![Prim] = "onTracksRet"]
  /\ UNCHANGED <<alive, ret, ss, scen>>

PrimOnTracksRet ==
  /\ pc[Prim] = "onTracksRet"
  /\ ctl' = [ctl EXCEPT !.inCb = FALSE]
  /\ IF scen.tracksErr THEN Return(Prim, "ontracks") ELSE pc' = [pc EXCEPT ![Prim] = "sendStart"] /\ ret' = ret
  /\ UNCHANGED <<alive, ss, scen>>

\* chStartStreaming of stream ctl.k
StartHandoff ==
  /\ pc[Prim] = "sendStart" /\ pc[Sp(ctl.k)] = "waitStart"
  /\ pc' = [pc EXCEPT ![Sp(ctl.k)] = IF Fmp4 THEN "pull" ELSE "lead", ![Prim] = IF ctl.k = NStreams THEN "waitEnded" ELSE "sendStart"]
  /\ ctl' = [ctl EXCEPT !.k = IF ctl.k = NStreams THEN 1 ELSE ctl.k + 1]
  /\ ss' = [ss EXCEPT ![ctl.k].started = TRUE]
  /\ UNCHANGED <<alive, ret, scen>>

PrimEnded ==
  /\ pc[Prim] = "waitEnded" /\ ss[ctl.k].ended
  /\ IF ctl.k = NStreams THEN Return(Prim, "eos") /\ ctl' = ctl
     ELSE ctl' = [ctl EXCEPT !.k = ctl.k + 1] /\ UNCHANGED <<pc, ret>>
  /\ UNCHANGED <<alive, ss, scen>>

(* ---- dl(j) ---- *)
DlAfterHttp(j) ==
  /\ pc[Dl(j)] = "afterHttp"
  /\ LET s == ss[j] IN
     CASE s.what = "pl0" ->
            IF Fmp4 THEN pc' = [pc EXCEPT ![Dl(j)] = "req"] /\ ss' = [ss EXCEPT ![j].what = "init"]
                    ELSE pc' = [pc EXCEPT ![Dl(j)] = "spawnSp"] /\ ss' = ss
       [] s.what = "init" -> pc' = [pc EXCEPT ![Dl(j)] = "spawnSp"] /\ ss' = ss
       [] s.what = "seg" ->
            /\ ss' = [ss EXCEPT ![j].segNo = s.segNo + 1, ![j].what = "pl",
                                ![j].queue = IF s.segNo + 1 = NSeg THEN s.queue \o <<"seg", "nil">> ELSE Append(s.queue, "seg")]
            /\ pc' = [pc EXCEPT ![Dl(j)] = IF s.segNo + 1 = NSeg THEN "waitCtx" ELSE "throttle"]
       [] s.what = "pl" -> pc' = [pc EXCEPT ![Dl(j)] = "req"] /\ ss' = [ss EXCEPT ![j].what = "seg"]
  /\ UNCHANGED <<alive, ret, ctl, scen>>

DlSpawnSp(j) ==
  /\ pc[Dl(j)] = "spawnSp"
  /\ alive' = alive \cup {Sp(j)}
  /\ pc' = [pc EXCEPT ![Dl(j)] = "req", ![Sp(j)] = IF Fmp4 THEN "sendTracks" ELSE "pull"]
  /\ ss' = [ss EXCEPT ![j].what = "seg"]
  /\ UNCHANGED <<ret, ctl, scen>>

DlThrottle(j) ==
  /\ pc[Dl(j)] = "throttle" /\ Len(ss[j].queue) <= 1
  /\ pc' = [pc EXCEPT ![Dl(j)] = "req"]
  /\ UNCHANGED <<alive, ret, ctl, ss, scen>>

(* ---- sp(j) ---- *)
SpPull(j) ==
  /\ pc[Sp(j)] = "pull" /\ ss[j].queue # <<>>
  /\ LET s == ss[j] IN
     IF Head(s.queue) = "nil"
     THEN ss' = [ss EXCEPT ![j].queue = Tail(s.queue), ![j].ended = TRUE] /\ pc' = [pc EXCEPT ![Sp(j)] = "waitCtx"]
     ELSE /\ ss' = [ss EXCEPT ![j].queue = Tail(s.queue)]
          /\ pc' = [pc EXCEPT ![Sp(j)] = IF ~s.started THEN "sendTracks" ELSE IF ~s.tpSpawned THEN "lead" ELSE "pushT"]
  /\ UNCHANGED <<alive, ret, ctl, scen>>

\* initializeTrackProcessors: the leading stream publishes the time converter, a rendition waits for it
SpLead(j) ==
  /\ pc[Sp(j)] = "lead"
  /\ IF ss[j].tpSpawned THEN pc' = [pc EXCEPT ![Sp(j)] = "pushT"] /\ UNCHANGED <<alive, ctl, ss>>
     ELSE /\ j = 1 \/ ctl.leadConv
          /\ ctl' = IF j = 1 THEN [ctl EXCEPT !.leadConv = TRUE] ELSE ctl
          /\ alive' = alive \cup {Tp(j)}
          /\ ss' = [ss EXCEPT ![j].tpSpawned = TRUE]
          /\ pc' = [pc EXCEPT ![Sp(j)] = "pushT", ![Tp(j)] = "recv"]
  /\ UNCHANGED <<ret, scen>>

EntryHandoff(j) ==
  /\ pc[Sp(j)] = "pushT" /\ pc[Tp(j)] = "recv"
  /\ pc' = [pc EXCEPT ![Sp(j)] = "join", ![Tp(j)] = "pace"]
  /\ UNCHANGED <<alive, ret, ctl, ss, scen>>

SpJoin(j) ==
  /\ pc[Sp(j)] = "join"
  /\ \/ ss[j].tokens > 0 /\ ss' = [ss EXCEPT ![j].tokens = ss[j].tokens - 1]
     \/ ctl.poolCancelled /\ ss' = ss
  /\ pc' = [pc EXCEPT ![Sp(j)] = "pull"]
  /\ UNCHANGED <<alive, ret, ctl, scen>>

(* ---- tp(j) ---- *)
TpPace(j) ==
  /\ pc[Tp(j)] = "pace"
  /\ pc' = [pc EXCEPT ![Tp(j)] = "cb"]
  /\ UNCHANGED <<alive, ret, ctl, ss, scen>>

TpCallback(j) ==
  /\ pc[Tp(j)] = "cb"
  /\ ctl' = [ctl EXCEPT !.inCb = TRUE, !.ndata = ctl.ndata + 1, !.userClosed = Closed(ctl, <<"data", ctl.ndata + 1>>)]
  /\ pc' = [pc EXCEPT ![Tp(j)] = "cbRet"]
  /\ UNCHANGED <<alive, ret, ss, scen>>

TpCallbackRet(j) ==
  /\ pc[Tp(j)] = "cbRet"
  /\ ctl' = [ctl EXCEPT !.inCb = \E i \in Streams : i # j /\ pc[Tp(i)] = "cbRet"]
  /\ pc' = [pc EXCEPT ![Tp(j)] = "signal"]
  /\ UNCHANGED <<alive, ret, ss, scen>>

TpSignal(j) ==
  /\ pc[Tp(j)] = "signal"
  /\ \/ ss' = [ss EXCEPT ![j].tokens = ss[j].tokens + 1]
     \/ ctl.poolCancelled /\ ss' = ss
  /\ pc' = [pc EXCEPT ![Tp(j)] = "recv"]
  /\ UNCHANGED <<alive, ret, ctl, scen>>

(* ---- ctx.Done() alternatives ---- *)
Blocking(g) ==
  \/ g = Prim /\ pc[g] \in ({"waitTracks", "waitEnded"} \cup (IF Variant = "startNoSelect" THEN {} ELSE {"sendStart"}))
  \/ \E j \in Streams :
       \/ g = Dl(j) /\ pc[g] \in {"throttle", "waitCtx"}
       \/ g = Sp(j) /\ pc[g] \in ({"sendTracks", "waitStart", "pull", "pushT", "waitCtx"} \cup
                                   (IF Variant = "leadNoCtx" THEN {} ELSE IF j # 1 /\ ~ctl.leadConv THEN {"lead"} ELSE {}))
       \/ g = Tp(j) /\ pc[g] \in {"recv", "pace"}

Cancelled(g) ==
  /\ ctl.poolCancelled /\ Blocking(g)
  /\ Return(g, IF g[1] = "tp" /\ pc[g] = "recv" THEN "" ELSE "terminated")
  /\ UNCHANGED <<alive, ctl, ss, scen>>

(* ---- routine pool and Client.run ---- *)
GReturn(g) ==
  /\ pc[g] = "ret"
  /\ IF ret[g] = "" THEN alive' = alive \ {g} /\ pc' = [pc EXCEPT ![g] = "exit"]
     ELSE alive' = alive /\ pc' = [pc EXCEPT ![g] = "sendErr"]
  /\ UNCHANGED <<ret, ctl, ss, scen>>

GSendErrCancelled(g) ==
  /\ pc[g] = "sendErr" /\ ctl.poolCancelled
  /\ alive' = alive \ {g} /\ pc' = [pc EXCEPT ![g] = "exit"]
  /\ UNCHANGED <<ret, ctl, ss, scen>>

RunRecvErr(g) ==
  /\ pc[Run] = "select" /\ pc[g] = "sendErr"
  /\ ctl' = [ctl EXCEPT !.result = ret[g]]
  /\ alive' = alive \ {g}
  /\ pc' = [pc EXCEPT ![g] = "exit", ![Run] = "cancelE"]
  /\ UNCHANGED <<ret, ss, scen>>

RunSeeClose ==
  /\ pc[Run] = "select" /\ ctl.userClosed
  /\ ctl' = [ctl EXCEPT !.result = "terminated"]
  /\ pc' = [pc EXCEPT ![Run] = "cancelC"]
  /\ UNCHANGED <<alive, ret, ss, scen>>

RunCancel ==
  /\ pc[Run] \in {"cancelE", "cancelC"}
  /\ ctl' = [ctl EXCEPT !.poolCancelled = TRUE]
  /\ pc' = [pc EXCEPT ![Run] = IF Variant = "errorNoJoin" /\ pc[Run] = "cancelE" THEN "yield" ELSE "join"]
  /\ UNCHANGED <<alive, ret, ss, scen>>

RunJoin ==
  /\ pc[Run] = "join" /\ alive = {}
  /\ pc' = [pc EXCEPT ![Run] = "yield"]
  /\ UNCHANGED <<alive, ret, ctl, ss, scen>>

RunYield ==
  /\ pc[Run] = "yield"
  /\ ctl' = [ctl EXCEPT !.outErr = Append(ctl.outErr, ctl.result)]
  /\ pc' = [pc EXCEPT ![Run] = "done"]
  /\ UNCHANGED <<alive, ret, ss, scen>>

Next ==
  \/ \E g \in {Prim} \cup {Dl(j) : j \in Streams} : HttpArrive(g) \/ HttpFail(g) \/ HttpStall(g) \/ HttpOK(g)
  \/ PrimSpawn \/ TracksHandoff \/ PrimOnTracks \/ PrimOnTracksRet \/ StartHandoff \/ PrimEnded
  \/ \E j \in Streams : DlAfterHttp(j) \/ DlSpawnSp(j) \/ DlThrottle(j) \/ SpPull(j) \/ SpLead(j) \/ EntryHandoff(j) \/ SpJoin(j)
                        \/ TpPace(j) \/ TpCallback(j) \/ TpCallbackRet(j) \/ TpSignal(j)
  \/ \E g \in G : Cancelled(g) \/ GReturn(g) \/ GSendErrCancelled(g) \/ RunRecvErr(g)
  \/ RunSeeClose \/ RunCancel \/ RunJoin \/ RunYield \/ UserCloseAny

Spec == Init /\ [][Next]_vars /\ WF_vars(Next)

-----------------------------------------------------------------------------
Done == pc[Run] = "done"
AtMostOneValue == Len(ctl.outErr) <= 1 /\ (Done => Len(ctl.outErr) = 1)
NoGoroutineLeft == Done => alive = {}
NoCallbackAfterwards == Done => ~ctl.inCb
NeverNil == Done => ctl.outErr[1] # ""
FaultHit == scen.fault[1] # "none" /\ scen.fault[2] < ctl.nreq
ErrorSurfaced ==
  (Done /\ ~ctl.userClosed) =>
     LET r == ctl.outErr[1] IN
     \/ FaultHit /\ scen.fault[1] \in {"status", "transport"} /\ r = scen.fault[1]
     \/ scen.tracksErr /\ r = "ontracks"
     \/ ~scen.tracksErr /\ r = "eos"
     \/ FaultHit /\ r \in {"eos", "ontracks", "cancelled"}
\* a rendition never delivers before the leading time converter exists
RenditionAfterLeading == \A j \in Streams : (j # 1 /\ ss[j].tpSpawned) => ctl.leadConv
Stalled == \E g \in G : pc[g] = "stall"
Terminates == <>[](Done \/ (Stalled /\ ~ctl.userClosed))

\* scenario sets for the configurations
CP_small == {<<"none", 0>>, <<"any", 0>>, <<"tracks", 0>>, <<"data", 1>>}
F_small == {<<"none", 0>>} \cup {<<"status", k>> : k \in 0..(MaxReq - 1)} \cup {<<"stall", k>> : k \in {1, 4}}
CP_tiny == {<<"none", 0>>, <<"tracks", 0>>, <<"any", 0>>}
F_tiny == {<<"none", 0>>, <<"status", 4>>, <<"stall", 5>>}
CP_all == {<<"none", 0>>, <<"any", 0>>, <<"tracks", 0>>, <<"data", 1>>, <<"data", 2>>} \cup {<<"req", k>> : k \in 0..(MaxReq - 1)}
F_all == {<<"none", 0>>} \cup {<<f, k>> : f \in {"status", "transport", "stall"}, k \in 0..(MaxReq - 1)}
=============================================================================
