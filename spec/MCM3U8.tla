------------------------------- MODULE MCM3U8 -------------------------------
(* Design check of pkg/playlist at token level: one initial state per abstract value. *)
EXTENDS M3U8
CONSTANT Emit
VARIABLE p
Init == p \in Values
Next == UNCHANGED p
RoundTrip == RoundTripOK(p)
Grammatical == Grammar(Encode(p))
\* generation run: print every abstract value
EmitValue == Emit => PrintT(<<"HIST", ToJson(p)>>)
RoundTripOrPrint == (RoundTripOK(p) /\ Grammar(Encode(p))) \/ PrintT(<<"ATTACK", ToJson(p)>>)
=============================================================================
