------------------------------ MODULE ClientRun ------------------------------
(***************************************************************************)
(* Trace validation for the client family (C10-C13, end-to-end part of     *)
(* C20).  trace.ndjson holds runs of the REAL gohlslib.Client against the  *)
(* in-process stub server of harness/internal/clientdrv:                   *)
(*                                                                         *)
(*   reset   scenario (streams, playlist histories, faults, Close point)   *)
(*   req     one HTTP request as received by the stub, in arrival order    *)
(*   tracks  OnTracks                                                      *)
(*   data    one OnData* callback (track, unit id found in the payload,    *)
(*           pts, dts, AbsoluteTime) + exact-arithmetic error terms        *)
(*   wait    what Wait() yielded, goroutines left, callbacks afterwards    *)
(*   end                                                                   *)
(*                                                                         *)
(* The downloader state machine of ClientFetch.tla is stepped per stream   *)
(* over the request log (every request must be the one the model's phase   *)
(* demands); deliveries are checked against what was downloaded; the       *)
(* outcome against the outcomes the model allows.  One flag per property,  *)
(* `why` names the first clause that failed.                               *)
(***************************************************************************)
EXTENDS ClientFetchOps

Trace == ndJsonDeserialize("trace.ndjson")

CONSTANTS Want,                 \* clause families evaluated: subset of {"c10","c11","c12","c13","c20"}
          TolerateStaleAnchor   \* TRUE: the recorded findings that stem from the order in which the MPEG-TS demuxer emits units
                                \* (a unit emitted before the first leading-track unit of its segment is dated with the previous
                                \* segment's date-time; at the start of the stream such units are dropped whatever their time)
                                \* are not reported again

VARIABLES l, sc, cs, dl, f, why, st

tvars == <<l, sc, cs, dl, f, why, st>>

AllTrue == [c10 |-> TRUE, c11 |-> TRUE, c12 |-> TRUE, c13 |-> TRUE, c20 |-> TRUE]
NoSc == [entry |-> "none"]
St0 == [tracks |-> FALSE, waited |-> FALSE, nreq |-> 0, faults |-> {}, stall |-> FALSE, forced |-> FALSE, pacing |-> FALSE, decerr |-> 0, mutSeen |-> FALSE]

TraceInit == l = 1 /\ sc = NoSc /\ cs = <<>> /\ dl = <<>> /\ f = AllTrue /\ why = "" /\ st = St0 /\ TLCSet(2, 0)

NS == Len(sc.streams)
Stream(j) == sc.streams[j]
IsFmp4(j) == Stream(j).container = "fmp4"
Per(j) == IF Stream(j).ll THEN 1 ELSE (IF Stream(j).perSeg = 0 THEN 1 ELSE Stream(j).perSeg)
NT == sc.nt

\* a clause: when it fails the property's flag drops and `why` keeps the first reason
Fail(ff, wy, p, name, cond) ==
  IF p \in Want /\ ~cond /\ ff[p]
  THEN <<[ff EXCEPT ![p] = FALSE], IF wy = "" THEN name ELSE wy>>
  ELSE <<ff, wy>>

RECURSIVE FailAll(_, _, _)
\* cl is a sequence of <<property, clause name, condition>>
FailAll(ff, wy, cl) ==
  IF cl = <<>> THEN <<ff, wy>>
  ELSE LET r == Fail(ff, wy, cl[1][1], cl[1][2], cl[1][3]) IN FailAll(r[1], r[2], Tail(cl))

Plain == sc.mut = "" /\ Len(sc.faults) = 0 /\ sc.closeReq = -1 /\ sc.closeWhen = "" /\ ~sc.onTracksErr /\ sc.closeData = 0 /\ sc.closeAtMs = 0

FaultClass(k) == CASE k = "status" -> "status" [] k = "transport" -> "transport" [] k = "stall" -> "cancelled" [] OTHER -> k

TraceReset ==
  /\ l <= Len(Trace) /\ Trace[l].ev = "reset"
  /\ sc' = Trace[l].sc
  /\ cs' = [j \in 1..Len(Trace[l].sc.streams) |-> CInit(Trace[l].sc.streams[j].container = "fmp4")]
  /\ dl' = [t \in 1..Trace[l].sc.nt |-> 0]
  /\ st' = St0
  /\ UNCHANGED <<f, why>>
  /\ l' = l + 1

ExpectedQuery(j, c, kind) ==
  LET q == Stream(j).query IN
  IF kind = "pl" /\ WantsSkip(c) THEN (IF q = "" THEN "_HLS_skip=YES" ELSE "_HLS_skip=YES&" \o q) ELSE q

\* number of requested segments of stream j whose units were all delivered (tracks with deliveries only)
TracksOf(j) == {t \in 1..NT : sc.tstream[t] = j - 1}
Done(j) ==
  LET ts == {t \in TracksOf(j) : dl[t] > 0}
      c == cs[j] IN
  IF ts = {} \/ c.firstSeg = None THEN 0
  ELSE LET m == CHOOSE x \in {dl[t] \div Per(j) : t \in ts} : \A t \in ts : x <= dl[t] \div Per(j)
       IN IF m - c.firstSeg < 0 THEN 0 ELSE m - c.firstSeg

TraceReq ==
  /\ l <= Len(Trace) /\ Trace[l].ev = "req"
  /\ LET e == Trace[l]
         j == e.s + 1
         known == j >= 1 /\ j <= NS
         c == IF known THEN cs[j] ELSE CInit(FALSE)
         faulty == e.fault # ""
         phaseOK == CASE e.kind = "multi" -> sc.entry = "multi" /\ e.i = 0
                      [] e.kind = "pl"    -> known /\ c.phase = "pl"
                      [] e.kind = "init"  -> known /\ c.phase = "init"
                      [] e.kind = "seg"   -> known /\ c.phase = "seg" /\ e.id = c.tgt
                      [] e.kind = "part"  -> known /\ c.phase = "hint" /\ e.id = c.tgt
                      [] OTHER -> FALSE
         queryOK == (known /\ e.kind \in {"pl", "init", "seg", "part"}) => e.q = ExpectedQuery(j, c, e.kind)
         firstOK == (e.i = 0) => (IF sc.entry = "multi" THEN e.kind = "multi" ELSE (e.kind = "pl" /\ e.s = 0))
         v == [ms |-> e.ms, n |-> e.n, end |-> e.end = 1, vod |-> e.vod = 1, hint |-> e.hint,
               ll |-> IF known THEN Stream(j).ll ELSE FALSE, canSkip |-> IF known THEN Stream(j).canSkip ELSE FALSE]
         c1 == IF ~known THEN c
               ELSE IF faulty THEN [c EXCEPT !.phase = "err", !.errc = FaultClass(e.fault)]
               ELSE IF e.mut # "" THEN [c EXCEPT !.phase = "any"]
               ELSE IF c.phase = "any" THEN c
               ELSE CASE e.kind = "pl" /\ c.phase = "pl" -> AfterPlaylist(c, v)
                      [] e.kind = "init" /\ c.phase = "init" -> AfterInit(c)
                      [] e.kind = "seg" /\ c.phase = "seg" -> AfterSeg([c EXCEPT !.tgt = e.id])
                      [] e.kind = "part" /\ c.phase = "hint" -> AfterHint([c EXCEPT !.tgt = e.id])
                      [] OTHER -> [c EXCEPT !.phase = "any"]     \* off the model: later requests of this stream are not judged
         \* segment requests are counted (look-ahead, downloaded units) even when the stream has left the model
         c2 == IF known /\ e.kind \in {"seg", "part"} /\ ~faulty /\ c1.nseg = c.nseg
               THEN [c1 EXCEPT !.nseg = c.nseg + 1, !.cur = e.id, !.firstSeg = IF c.firstSeg = None THEN e.id ELSE c.firstSeg]
               ELSE c1
         checked == sc.mut = "" /\ (~known \/ c.phase # "any")
         r == FailAll(f, why, <<
                <<"c11", "C11_FirstRequest", checked => firstOK>>,
                <<"c11", "C11_NextRequest", checked => phaseOK>>,
                <<"c11", "C11_Query", checked => queryOK>>,
                \* the stub answers at once, so a segment requested is a segment downloaded: with it, at most one segment is being
                \* processed and two are waiting (requested <= fully delivered + 3)
                <<"c20", "C20_LookAhead", (known /\ e.kind = "seg" /\ ~Stream(j).ll) => c.nseg + 1 <= Done(j) + 3>>,
                <<"c12", "C12_RequestAfterOutcome", ~st.waited>>
              >>)
     IN /\ cs' = IF known THEN [cs EXCEPT ![j] = c2] ELSE cs
        /\ f' = r[1] /\ why' = r[2]
        /\ st' = [st EXCEPT !.nreq = st.nreq + 1,
                            !.faults = IF faulty THEN st.faults \cup {FaultClass(e.fault)} ELSE st.faults,
                            !.stall = st.stall \/ e.fault = "stall",
                            !.mutSeen = st.mutSeen \/ e.mut # ""]
  /\ UNCHANGED <<sc, dl>>
  /\ l' = l + 1

TraceTracks ==
  /\ l <= Len(Trace) /\ Trace[l].ev = "tracks"
  /\ LET e == Trace[l]
         r == FailAll(f, why, <<
                <<"c10", "C10_TracksOnce", ~st.tracks>>,
                <<"c10", "C10_TrackList", (sc.mut = "") => e.list = e.exp>>,
                <<"c12", "C12_CallbackAfterOutcome", ~st.waited>>
              >>)
     IN f' = r[1] /\ why' = r[2]
  /\ st' = [st EXCEPT !.tracks = TRUE]
  /\ UNCHANGED <<sc, cs, dl>>
  /\ l' = l + 1

\* highest unit id of stream j that has been requested so far
Downloaded(j) == IF cs[j].cur = None THEN 0 ELSE IF Stream(j).ll THEN cs[j].cur ELSE (cs[j].cur + 1) * Per(j)

TraceData ==
  /\ l <= Len(Trace) /\ Trace[l].ev = "data"
  /\ LET e == Trace[l]
         t == e.t
         j == e.s + 1
         wf == sc.mut = ""        \* well-formed stream: C10 applies
         r == FailAll(f, why, <<
                <<"c10", "C10_TracksBeforeData", st.tracks>>,
                <<"c10", "C10_ByteIdentical", wf => (e.idok = 1 /\ e.same = 1 /\ e.st = e.lt)>>,
                <<"c10", "C10_InOrderOnce", wf => (IF dl[t] = 0 THEN (e.first = 1 /\ (e.startup = 0 \/ TolerateStaleAnchor)) ELSE e.id = dl[t] + 1)>>,
                <<"c10", "C10_OnlyDownloaded", wf => e.id <= Downloaded(j)>>,
                <<"c10", "C10_NeverNegative", e.pts >= 0 /\ (wf => e.neg = 0)>>,
                <<"c10", "C10_DTS", wf => e.dd = 0>>,
                <<"c10", "C10_PTS", wf => e.dp = 0>>,
                <<"c10", "C10_AbsoluteTime", wf => (e.da = 0 \/ (TolerateStaleAnchor /\ e.stale = 1))>>,
                <<"c12", "C12_CallbackAfterOutcome", ~st.waited>>
              >>)
     IN /\ f' = r[1] /\ why' = r[2]
        /\ dl' = [dl EXCEPT ![t] = e.id]
  /\ UNCHANGED <<sc, cs, st>>
  /\ l' = l + 1

TraceMisc ==
  /\ l <= Len(Trace) /\ Trace[l].ev \in {"decerr", "forcedclose"}
  /\ st' = IF Trace[l].ev = "forcedclose" THEN [st EXCEPT !.forced = TRUE, !.pacing = Trace[l].pacing = 1] ELSE [st EXCEPT !.decerr = st.decerr + 1]
  /\ UNCHANGED <<sc, cs, dl, f, why>>
  /\ l' = l + 1

Errs == {cs[j].errc : j \in {k \in 1..NS : cs[k].phase = "err"}}
AllEnded == \A j \in 1..NS : cs[j].phase = "ended"
Complete == \A t \in 1..NT : dl[t] = Downloaded(sc.tstream[t] + 1)

TraceWait ==
  /\ l <= Len(Trace) /\ Trace[l].ev = "wait"
  /\ LET e == Trace[l]
         closed == e.closed = 1
         \* outcomes the models allow for this run
         allowed == Errs \cup st.faults \cup (IF AllEnded THEN {"eos"} ELSE {})
                         \cup (IF sc.onTracksErr /\ st.tracks THEN {"ontracks"} ELSE {})
         expectedStall == st.stall /\ ~closed
         r == FailAll(f, why, <<
                <<"c12", "C12_ExactlyOneError", e.got = 1 /\ e.extra = 0 /\ e.err # "nil">>,
                <<"c12", "C12_NoGoroutineLeft", e.alive = 0>>,
                <<"c12", "C12_NothingRunningAtOutcome", (e.got = 1 /\ ~st.forced) => (e.aliveNow = 0 /\ e.inCb = 0)>>,
                <<"c12", "C12_NoCallbackAfterwards", e.cbAfter = 0>>,
                <<"c12", "C12_NotWedged", st.forced => (expectedStall \/ sc.mut # "")>>,
                <<"c12", "C12_ErrorSurfaced", (sc.mut = "" /\ ~closed /\ ~st.forced /\ e.got = 1) => e.err \in allowed>>,
                \* still running at the end of the budget is acceptable only while a sample is being paced (<= 10 s by design)
                <<"c13", "C13_NotWedged", (sc.mut # "") => ((st.forced => st.pacing) /\ e.got = 1)>>,
                <<"c13", "C13_HonoursClose", (sc.mut # "") => (e.got = 1 /\ e.alive = 0 /\ e.extra = 0)>>,
                <<"c11", "C11_Outcome", (Plain /\ e.got = 1) => e.err \in allowed>>,
                <<"c11", "C11_EOSOnlyAfterLast", (sc.mut = "" /\ e.err = "eos") => AllEnded>>,
                <<"c10", "C10_StreamCompletes", (Plain /\ AllEnded) => (e.err = "eos" /\ ~st.forced)>>,
                <<"c10", "C10_EveryUnitDelivered", (Plain /\ e.err = "eos") => Complete>>
              >>)
     IN f' = r[1] /\ why' = r[2]
  /\ st' = [st EXCEPT !.waited = TRUE]
  /\ UNCHANGED <<sc, cs, dl>>
  /\ l' = l + 1

TraceEnd ==
  /\ l <= Len(Trace) /\ Trace[l].ev = "end"
  /\ TLCSet(2, TLCGet(2) + 1)
  /\ UNCHANGED <<sc, cs, dl, f, why, st>>
  /\ l' = l + 1

TraceNext == TraceReset \/ TraceReq \/ TraceTracks \/ TraceData \/ TraceMisc \/ TraceWait \/ TraceEnd
TraceSpec == TraceInit /\ [][TraceNext]_tvars

Post == PrintT(<<"TRACES", TLCGet(2)>>)

C10_Delivery      == f.c10
C11_Fetching      == f.c11
C12_Termination   == f.c12
C13_Robustness    == f.c13
C20_LookAhead     == f.c20
=============================================================================
