--------------------------- MODULE MCStorageTrace ---------------------------
EXTENDS StorageTrace
MCWriteSet == {}
MCSeekSet  == {}
MCReadSizes == {}
=============================================================================
