CONSTANT Want = {}
CONSTANT Conform = FALSE
INIT TraceInit
NEXT TraceNext
INVARIANTS C06_DeltaIsSuffix
CHECK_DEADLOCK FALSE
