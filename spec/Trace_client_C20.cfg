SPECIFICATION TraceSpec
CONSTANTS
  InitialDistance = 3
  MaxDistance = 5
  Variant = "ok"
  Want = {"c20"}
  TolerateStaleAnchor = TRUE
INVARIANTS C20_LookAhead
POSTCONDITION Post
CHECK_DEADLOCK FALSE
