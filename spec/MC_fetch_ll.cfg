SPECIFICATION FSpec
CONSTANTS
  InitialDistance = 3
  Variant = "ok"
  MaxDistance = 5
  MaxMS = 4
  MaxN = 4
  MaxAdvance = 3
  MaxPolls = 4
  Vod = FALSE
  Fmp4 = TRUE
  LL = TRUE
  CanSkip = TRUE
INVARIANTS LLFollowsHints LLStopsWithoutHint ErrorsJustified Consecutive StartsRight OnlyListed NotTooLate EOSAfterLast ReloadBetween
CHECK_DEADLOCK FALSE
