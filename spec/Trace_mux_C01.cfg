CONSTANT Want = {"c01"}
CONSTANT Conform = FALSE
INIT TraceInit
NEXT TraceNext
INVARIANTS C01_UnitsPreserved
CHECK_DEADLOCK FALSE
