CONSTANT Want = {"c01"}
INIT TraceInit
NEXT TraceNext
INVARIANTS C01_UnitsPreserved
CHECK_DEADLOCK FALSE
