---------------------------- MODULE StorageTrace ----------------------------
(***************************************************************************)
(* Trace validation for C17: every line of trace.ndjson is one storage     *)
(* operation executed on the REAL RAM-backed and disk-backed File, with    *)
(* the results of both.  The abstract file of Storage.tla is stepped with  *)
(* the logged arguments; the logged results must be the model's result.    *)
(***************************************************************************)
EXTENDS Storage

Trace == ndJsonDeserialize("trace.ndjson")

VARIABLE l

tvars == <<vars, l>>

TraceInit == Init /\ l = 1

TraceReset ==
  /\ l <= Len(Trace) /\ Trace[l].ev = "reset"
  /\ parts' = <<>> /\ fin' = FALSE /\ rem' = FALSE /\ readers' = <<>>
  /\ res' = NoRes /\ hist' = hist
  /\ file' = <<>> /\ dparts' = <<>>
  /\ l' = l + 1

TraceOp ==
  /\ l <= Len(Trace) /\ Trace[l].ev = "op"
  /\ Step(Trace[l])
  /\ hist' = hist
  /\ l' = l + 1

TraceNext == TraceReset \/ TraceOp
TraceSpec == TraceInit /\ [][TraceNext]_tvars

-----------------------------------------------------------------------------
(* C17 predicates over the OBSERVED results *)

Match(m, o, isDisk) ==
  /\ "panic" \notin DOMAIN o
  /\ CASE m.o = "newpart"  -> TRUE
       [] m.o = "write"    -> o.n = m.n /\ o.err = m.err
       [] m.o = "seek"     -> o.err = m.err /\ (m.err = 0 => o.pos = m.pos)
       [] m.o = "finalize" -> isDisk => o.exists = 1
       [] m.o = "size"     -> fin => o.n = m.n           \* C17 fixes Size only once finalized
       [] m.o = "openpart" -> o.err = m.err
       [] m.o = "openfile" -> o.err = m.err               \* NoFileReaderBeforeFinalize
       [] m.o = "read"     -> o.bs = m.bs /\ o.eof = m.eof  \* PartReadsBack / FileIsConcat
       [] m.o = "remove"   -> isDisk => o.exists = 0       \* RemoveDeletesFile
       [] OTHER -> TRUE

Prev == Trace[l - 1]

C17_RamMatches  == (l > 1 /\ Prev.ev = "op") => Match(res, Prev.ram, FALSE)
C17_DiskMatches == (l > 1 /\ Prev.ev = "op") => Match(res, Prev.disk, TRUE)
\* observational equivalence where the model leaves the value open (Size before Finalize)
C17_BackendsAgree == (l > 1 /\ Prev.ev = "op" /\ Prev.o = "size") => Prev.ram.n = Prev.disk.n

TraceView == <<l>>
=============================================================================
