SPECIFICATION TraceSpec
CONSTANTS
  TolerateForeignAnchor = FALSE
INVARIANTS C09_Reproduces
POSTCONDITION Post
CHECK_DEADLOCK FALSE
