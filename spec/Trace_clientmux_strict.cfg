SPECIFICATION TraceSpec
CONSTANTS
  TolerateLLTD0 = FALSE
INVARIANTS C09_Reproduces
POSTCONDITION Post
CHECK_DEADLOCK FALSE
