CONSTANTS
  Variant = "mpegts"
  TrackKinds <- TK_VA
  SegCount = 3
  SegMin = 2
  PartMin = 1
  MaxSize = 1000
  Deltas <- D2
  VKinds <- VK2
  AudioDur = 1
  Sizes <- S1
  MaxWrites = 9
  MaxAU = 1
  StartDts = 0
  MinAUc = 2
  Emit = FALSE
  ConstSd = 0
  NGaps = 2
  WeakVariant = ""
INIT Init
NEXT Next
INVARIANTS C01 C02 C03 C04 C18 WindowBounded IdsConsistent
CHECK_DEADLOCK FALSE
