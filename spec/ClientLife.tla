------------------------------ MODULE ClientLife ------------------------------
(***************************************************************************)
(* Life cycle of a gohlslib Client (C12): the goroutines owned by the      *)
(* routine pool, their blocking hand-offs, user Close at any event, and    *)
(* HTTP faults at any request.                                             *)
(*                                                                         *)
(* Goroutines (one media playlist, one track):                             *)
(*   run   Client.run / runInner: select {pool error | user ctx} ->        *)
(*         pool.close() = cancel + wg.Wait -> single send on outErr        *)
(*   prim  clientPrimaryDownloader.run: playlist, wait tracks, OnTracks,   *)
(*         start signal, wait ended -> ErrClientEOS                        *)
(*   dl    clientStreamDownloader.run: [init], segment, push, throttle,    *)
(*         playlist, ... ; nil sentinel after the last segment             *)
(*   sp    clientStreamProcessor*: setTracks hand-off, pull, push to the   *)
(*         track processor, join                                           *)
(*   tp    clientTrackProcessor* + clientTrack.handleData: receive, pace,  *)
(*         user OnData callback, signal                                    *)
(* Every blocking step has the alternative `pool context cancelled`, as in *)
(* the code (select { ... case <-ctx.Done() }).  Weakened variants remove  *)
(* one of these alternatives or the join; TLC must refute them, and their  *)
(* counterexamples name the Close points the real client is driven at.     *)
(*                                                                         *)
(* Events visible to the harness: the arrival of the k-th HTTP request,    *)
(* entry of OnTracks, entry of the k-th OnData, the outcome.  The user's   *)
(* Close happens AT one of these events (ClosePoint), which is how the     *)
(* harness triggers it (inside the transport / inside the callback).       *)
(***************************************************************************)
EXTENDS Integers, Sequences, FiniteSets, TLC, Json

CONSTANTS NSeg,          \* segments of the (finite, ENDLIST) stream
          NPart,         \* part tracks (fragments x tracks) per segment, pushed one by one to the track processor
          TokenCap,      \* capacity of the completion channel chPartTrackProcessed; 0 = sized on the segment (repaired code),
                         \* k > 0 = fixed capacity k (the code before the repair had 10: a segment with more part tracks deadlocked)
          Fmp4,          \* TRUE: init segment + tracks known before the first segment
          Variant,       \* "ok" | "startNoSelect" (C12: start hand-off without ctx alternative)
                         \*      | "errorNoJoin" (pool cancelled but not joined on the error path)
                         \*      | "pushNoCtx" (hand-off of a sample to the track processor ignores cancellation)
          MaxReq         \* requests are numbered 0..MaxReq-1 (bounds close/fault positions)

G == {"prim", "dl", "sp", "tp"}

VARIABLES pc,        \* pc[g] for g in G \cup {"run"}
          alive,     \* goroutines registered in the wait group
          ret,       \* ret[g]: error a goroutine returned with ("" = nil)
          userClosed, poolCancelled,
          result,    \* value runInner is about to return
          outErr,    \* values sent on the channel returned by Wait
          nreq, ndata,
          queue,     \* segment queue: sequence of "seg" / "nil"
          segNo,     \* segments downloaded so far
          tokens,    \* completion tokens from tp to sp
          tracksSet, ended, tpSpawned,
          inCb,      \* a user callback is executing
          dlWhat,    \* what dl's pending request is: "init" | "seg" | "pl"
          pushed, joined,   \* part tracks of the current segment pushed to tp / completion tokens consumed by the join
          scen       \* the scenario: [close, fault, tracksErr] chosen at Init

vars == <<pc, alive, ret, userClosed, poolCancelled, result, outErr, nreq, ndata, queue, segNo, tokens, tracksSet, ended, tpSpawned, inCb, dlWhat, pushed, joined, scen>>

ClosePoints == {<<"none", 0>>, <<"any", 0>>, <<"tracks", 0>>, <<"data", 1>>, <<"data", 2>>, <<"outcome", 0>>} \cup {<<"req", k>> : k \in 0..(MaxReq - 1)}
Faults == {<<"none", 0>>} \cup {<<f, k>> : f \in {"status", "transport", "stall"}, k \in 0..(MaxReq - 1)}

Init ==
  /\ pc = [g \in G \cup {"run"} |-> IF g = "run" THEN "select" ELSE IF g = "prim" THEN "req" ELSE "none"]
  /\ alive = {"prim"}
  /\ ret = [g \in G |-> ""]
  /\ userClosed = FALSE /\ poolCancelled = FALSE
  /\ result = "" /\ outErr = <<>>
  /\ nreq = 0 /\ ndata = 0
  /\ queue = <<>> /\ segNo = 0 /\ tokens = 0
  /\ tracksSet = FALSE /\ ended = FALSE /\ tpSpawned = FALSE /\ inCb = FALSE
  /\ dlWhat = IF Fmp4 THEN "init" ELSE "seg"
  /\ pushed = 0 /\ joined = 0
  /\ scen \in [close : ClosePoints, fault : Faults, tracksErr : BOOLEAN]

CloseAt(p) == scen.close = p

\* Close from the user's own goroutine, at any moment (the harness uses a timer)
UserCloseAny ==
  /\ CloseAt(<<"any", 0>>) /\ ~userClosed
  /\ userClosed' = TRUE
  /\ UNCHANGED <<pc, alive, ret, poolCancelled, result, outErr, nreq, ndata, queue, segNo, tokens, tracksSet, ended, tpSpawned, inCb, dlWhat, pushed, joined, scen>>

(***************************************************************************)
(* HTTP: "req" = the request arrives at the server (event), "resp" = the   *)
(* response is consumed.  After(g) is where g continues on success.        *)
(***************************************************************************)
Return(g, e) == /\ pc' = [pc EXCEPT ![g] = "ret"] /\ ret' = [ret EXCEPT ![g] = e]

HttpArrive(g) ==
  /\ pc[g] = "req"
  /\ nreq' = nreq + 1
  /\ userClosed' = (userClosed \/ CloseAt(<<"req", nreq>>))
  /\ pc' = [pc EXCEPT ![g] = IF scen.fault[2] = nreq /\ scen.fault[1] # "none" THEN scen.fault[1] ELSE "resp"]
  /\ UNCHANGED <<alive, ret, poolCancelled, result, outErr, ndata, queue, segNo, tokens, tracksSet, ended, tpSpawned, inCb, dlWhat, pushed, joined, scen>>

\* where a goroutine continues after a successful response
Next1(g) ==
  CASE g = "prim" -> "spawnDl"
    [] g = "dl" -> "afterHttp"

HttpFail(g) ==
  /\ pc[g] \in {"status", "transport"}
  /\ Return(g, pc[g])
  /\ UNCHANGED <<alive, userClosed, poolCancelled, result, outErr, nreq, ndata, queue, segNo, tokens, tracksSet, ended, tpSpawned, inCb, dlWhat, pushed, joined, scen>>

\* a body that never ends: only cancellation of the request context ends it
HttpStall(g) ==
  /\ pc[g] = "stall" /\ poolCancelled
  /\ Return(g, "cancelled")
  /\ UNCHANGED <<alive, userClosed, poolCancelled, result, outErr, nreq, ndata, queue, segNo, tokens, tracksSet, ended, tpSpawned, inCb, dlWhat, pushed, joined, scen>>

HttpOK(g) ==
  /\ pc[g] = "resp"
  /\ \/ pc' = [pc EXCEPT ![g] = Next1(g)] /\ ret' = ret
     \/ poolCancelled /\ Return(g, "cancelled")      \* the transport may notice the cancelled context
  /\ UNCHANGED <<alive, userClosed, poolCancelled, result, outErr, nreq, ndata, queue, segNo, tokens, tracksSet, ended, tpSpawned, inCb, dlWhat, pushed, joined, scen>>

(***************************************************************************)
(* prim                                                                    *)
(***************************************************************************)
PrimSpawn ==
  /\ pc["prim"] = "spawnDl"
  /\ alive' = alive \cup {"dl"}
  /\ pc' = [pc EXCEPT !["prim"] = "waitTracks", !["dl"] = IF Fmp4 THEN "req" ELSE "spawnSp"]
  /\ UNCHANGED <<ret, userClosed, poolCancelled, result, outErr, nreq, ndata, queue, segNo, tokens, tracksSet, ended, tpSpawned, inCb, dlWhat, pushed, joined, scen>>

\* chTracks: rendezvous sp -> prim
TracksHandoff ==
  /\ pc["prim"] = "waitTracks" /\ pc["sp"] = "sendTracks"
  /\ pc' = [pc EXCEPT !["prim"] = "onTracks", !["sp"] = "waitStart"]
  /\ UNCHANGED <<alive, ret, userClosed, poolCancelled, result, outErr, nreq, ndata, queue, segNo, tokens, tracksSet, ended, tpSpawned, inCb, dlWhat, pushed, joined, scen>>

\* the user's OnTracks runs on prim; Close may be called from inside it
PrimOnTracks ==
  /\ pc["prim"] = "onTracks"
  /\ inCb' = TRUE
  /\ userClosed' = (userClosed \/ CloseAt(<<"tracks", 0>>))
  /\ pc' = [pc EXCEPT !["prim"] = "onTracksRet"]
  /\ UNCHANGED <<alive, ret, poolCancelled, result, outErr, nreq, ndata, queue, segNo, tokens, tracksSet, ended, tpSpawned, dlWhat, pushed, joined, scen>>

PrimOnTracksRet ==
  /\ pc["prim"] = "onTracksRet"
  /\ inCb' = FALSE
  /\ IF scen.tracksErr THEN Return("prim", "ontracks")
     ELSE pc' = [pc EXCEPT !["prim"] = "sendStart"] /\ ret' = ret
  /\ UNCHANGED <<alive, userClosed, poolCancelled, result, outErr, nreq, ndata, queue, segNo, tokens, tracksSet, ended, tpSpawned, dlWhat, pushed, joined, scen>>

\* chStartStreaming: rendezvous prim -> sp
StartHandoff ==
  /\ pc["prim"] = "sendStart" /\ pc["sp"] = "waitStart"
  /\ tracksSet' = TRUE
  /\ pc' = [pc EXCEPT !["prim"] = "waitEnded", !["sp"] = IF Fmp4 THEN "pull" ELSE "spawnTp"]
  /\ UNCHANGED <<alive, ret, userClosed, poolCancelled, result, outErr, nreq, ndata, queue, segNo, tokens, ended, tpSpawned, inCb, dlWhat, pushed, joined, scen>>

PrimEnded ==
  /\ pc["prim"] = "waitEnded" /\ ended
  /\ Return("prim", "eos")
  /\ UNCHANGED <<alive, userClosed, poolCancelled, result, outErr, nreq, ndata, queue, segNo, tokens, tracksSet, ended, tpSpawned, inCb, dlWhat, pushed, joined, scen>>

(***************************************************************************)
(* dl                                                                      *)
(***************************************************************************)
DlAfterHttp ==
  /\ pc["dl"] = "afterHttp"
  /\ CASE dlWhat = "init" ->
            /\ pc' = [pc EXCEPT !["dl"] = "spawnSp"] /\ UNCHANGED <<queue, segNo, dlWhat>>
       [] dlWhat = "seg" ->
            \* push it; after the last one push the nil sentinel and wait for cancellation
            /\ segNo' = segNo + 1
            /\ queue' = IF segNo + 1 = NSeg THEN queue \o <<"seg", "nil">> ELSE Append(queue, "seg")
            /\ pc' = [pc EXCEPT !["dl"] = IF segNo + 1 = NSeg THEN "waitCtx" ELSE "throttle"]
            /\ dlWhat' = "pl"
       [] dlWhat = "pl" ->
            /\ pc' = [pc EXCEPT !["dl"] = "req"] /\ dlWhat' = "seg" /\ UNCHANGED <<queue, segNo>>
  /\ UNCHANGED <<alive, ret, userClosed, poolCancelled, result, outErr, nreq, ndata, tokens, tracksSet, ended, tpSpawned, inCb, pushed, joined, scen>>

DlSpawnSp ==
  /\ pc["dl"] = "spawnSp"
  /\ alive' = alive \cup {"sp"}
  /\ pc' = [pc EXCEPT !["dl"] = "req", !["sp"] = IF Fmp4 THEN "sendTracks" ELSE "pull"]
  /\ dlWhat' = "seg"
  /\ UNCHANGED <<ret, userClosed, poolCancelled, result, outErr, nreq, ndata, queue, segNo, tokens, tracksSet, ended, tpSpawned, inCb, pushed, joined, scen>>

\* waitUntilSizeIsBelow(ctx, 1): proceeds when at most one segment is waiting
DlThrottle ==
  /\ pc["dl"] = "throttle" /\ Len(queue) <= 1
  /\ pc' = [pc EXCEPT !["dl"] = "req"]
  /\ UNCHANGED <<alive, ret, userClosed, poolCancelled, result, outErr, nreq, ndata, queue, segNo, tokens, tracksSet, ended, tpSpawned, inCb, dlWhat, pushed, joined, scen>>

(***************************************************************************)
(* sp                                                                      *)
(***************************************************************************)
SpPull ==
  /\ pc["sp"] = "pull" /\ queue # <<>>
  /\ queue' = Tail(queue)
  /\ IF Head(queue) = "nil"
     THEN ended' = TRUE /\ pc' = [pc EXCEPT !["sp"] = "waitCtx"]
     ELSE /\ ended' = ended
          /\ pc' = [pc EXCEPT !["sp"] = IF ~tracksSet THEN "sendTracks" ELSE IF ~tpSpawned THEN "spawnTp" ELSE "pushT"]
  /\ UNCHANGED <<alive, ret, userClosed, poolCancelled, result, outErr, nreq, ndata, segNo, tokens, tracksSet, tpSpawned, inCb, dlWhat, pushed, joined, scen>>

SpSpawnTp ==
  /\ pc["sp"] = "spawnTp"
  /\ alive' = alive \cup {"tp"} /\ tpSpawned' = TRUE
  /\ pc' = [pc EXCEPT !["sp"] = "pushT", !["tp"] = "recv"]
  /\ UNCHANGED <<ret, userClosed, poolCancelled, result, outErr, nreq, ndata, queue, segNo, tokens, tracksSet, ended, inCb, dlWhat, pushed, joined, scen>>

\* unbuffered queue of the track processor: rendezvous sp -> tp
EntryHandoff ==
  /\ pc["sp"] = "pushT" /\ pc["tp"] = "recv"
  /\ pushed' = pushed + 1
  /\ pc' = [pc EXCEPT !["sp"] = IF pushed + 1 = NPart THEN "join" ELSE "pushT", !["tp"] = "pace"]
  /\ UNCHANGED <<alive, ret, userClosed, poolCancelled, result, outErr, nreq, ndata, queue, segNo, tokens, tracksSet, ended, tpSpawned, inCb, dlWhat, joined, scen>>

\* joinTrackProcessors: one token per pushed part track; returns (nil) on ctx.Done, the next pull then sees the ctx
SpJoin ==
  /\ pc["sp"] = "join"
  /\ \/ /\ tokens > 0 /\ tokens' = tokens - 1
        /\ joined' = IF joined + 1 = NPart THEN 0 ELSE joined + 1
        /\ pushed' = IF joined + 1 = NPart THEN 0 ELSE pushed
        /\ pc' = [pc EXCEPT !["sp"] = IF joined + 1 = NPart THEN "pull" ELSE "join"]
     \/ /\ poolCancelled /\ tokens' = tokens /\ joined' = 0 /\ pushed' = 0
        /\ pc' = [pc EXCEPT !["sp"] = "pull"]
  /\ UNCHANGED <<alive, ret, userClosed, poolCancelled, result, outErr, nreq, ndata, queue, segNo, tracksSet, ended, tpSpawned, inCb, dlWhat, scen>>

(***************************************************************************)
(* tp                                                                      *)
(***************************************************************************)
TpPace ==
  /\ pc["tp"] = "pace"
  /\ pc' = [pc EXCEPT !["tp"] = "cb"]
  /\ UNCHANGED <<alive, ret, userClosed, poolCancelled, result, outErr, nreq, ndata, queue, segNo, tokens, tracksSet, ended, tpSpawned, inCb, dlWhat, pushed, joined, scen>>

TpCallback ==
  /\ pc["tp"] = "cb"
  /\ inCb' = TRUE /\ ndata' = ndata + 1
  /\ userClosed' = (userClosed \/ CloseAt(<<"data", ndata + 1>>))
  /\ pc' = [pc EXCEPT !["tp"] = "cbRet"]
  /\ UNCHANGED <<alive, ret, poolCancelled, result, outErr, nreq, queue, segNo, tokens, tracksSet, ended, tpSpawned, dlWhat, pushed, joined, scen>>

TpCallbackRet ==
  /\ pc["tp"] = "cbRet"
  /\ inCb' = FALSE
  /\ pc' = [pc EXCEPT !["tp"] = "signal"]
  /\ UNCHANGED <<alive, ret, userClosed, poolCancelled, result, outErr, nreq, ndata, queue, segNo, tokens, tracksSet, ended, tpSpawned, dlWhat, pushed, joined, scen>>

TpSignal ==
  /\ pc["tp"] = "signal"
  /\ \/ (TokenCap = 0 \/ tokens < TokenCap) /\ tokens' = tokens + 1     \* buffered channel: blocks when full
     \/ poolCancelled /\ tokens' = tokens
  /\ pc' = [pc EXCEPT !["tp"] = "recv"]
  /\ UNCHANGED <<alive, ret, userClosed, poolCancelled, result, outErr, nreq, ndata, queue, segNo, tracksSet, ended, tpSpawned, inCb, dlWhat, pushed, joined, scen>>

(***************************************************************************)
(* the ctx.Done() alternative of every blocking step                       *)
(***************************************************************************)
Blocking(g) ==
  CASE g = "prim" -> pc[g] \in ({"waitTracks", "waitEnded"} \cup (IF Variant = "startNoSelect" THEN {} ELSE {"sendStart"}))
    [] g = "dl"   -> pc[g] \in {"throttle", "waitCtx"}
    [] g = "sp"   -> pc[g] \in ({"sendTracks", "waitStart", "pull", "waitCtx"} \cup (IF Variant = "pushNoCtx" THEN {} ELSE {"pushT"}))
    [] g = "tp"   -> pc[g] \in ({"recv"} \cup (IF Variant = "paceNoCtx" THEN {} ELSE {"pace"}))

Cancelled(g) ==
  /\ poolCancelled /\ Blocking(g)
  /\ Return(g, IF g = "tp" /\ pc[g] = "recv" THEN "" ELSE "terminated")
  /\ UNCHANGED <<alive, userClosed, poolCancelled, result, outErr, nreq, ndata, queue, segNo, tokens, tracksSet, ended, tpSpawned, inCb, dlWhat, pushed, joined, scen>>

(***************************************************************************)
(* routine pool                                                            *)
(***************************************************************************)
\* a goroutine returned: nil -> wg.Done; error -> select { pool.err <- err | ctx.Done }
GReturn(g) ==
  /\ pc[g] = "ret"
  /\ IF ret[g] = "" THEN alive' = alive \ {g} /\ pc' = [pc EXCEPT ![g] = "exit"]
     ELSE alive' = alive /\ pc' = [pc EXCEPT ![g] = "sendErr"]
  /\ UNCHANGED <<ret, userClosed, poolCancelled, result, outErr, nreq, ndata, queue, segNo, tokens, tracksSet, ended, tpSpawned, inCb, dlWhat, pushed, joined, scen>>

GSendErrCancelled(g) ==
  /\ pc[g] = "sendErr" /\ poolCancelled
  /\ alive' = alive \ {g} /\ pc' = [pc EXCEPT ![g] = "exit"]
  /\ UNCHANGED <<ret, userClosed, poolCancelled, result, outErr, nreq, ndata, queue, segNo, tokens, tracksSet, ended, tpSpawned, inCb, dlWhat, pushed, joined, scen>>

RunRecvErr(g) ==
  /\ pc["run"] = "select" /\ pc[g] = "sendErr"
  /\ result' = ret[g]
  /\ alive' = alive \ {g}
  /\ pc' = [pc EXCEPT ![g] = "exit", !["run"] = "cancelE"]
  /\ UNCHANGED <<ret, userClosed, poolCancelled, outErr, nreq, ndata, queue, segNo, tokens, tracksSet, ended, tpSpawned, inCb, dlWhat, pushed, joined, scen>>

RunSeeClose ==
  /\ pc["run"] = "select" /\ userClosed
  /\ result' = "terminated"
  /\ pc' = [pc EXCEPT !["run"] = "cancelC"]
  /\ UNCHANGED <<alive, ret, userClosed, poolCancelled, outErr, nreq, ndata, queue, segNo, tokens, tracksSet, ended, tpSpawned, inCb, dlWhat, pushed, joined, scen>>

RunCancel ==
  /\ pc["run"] \in {"cancelE", "cancelC"}
  /\ poolCancelled' = TRUE
  /\ pc' = [pc EXCEPT !["run"] = IF Variant = "errorNoJoin" /\ pc["run"] = "cancelE" THEN "yield" ELSE "join"]
  /\ UNCHANGED <<alive, ret, userClosed, result, outErr, nreq, ndata, queue, segNo, tokens, tracksSet, ended, tpSpawned, inCb, dlWhat, pushed, joined, scen>>

RunJoin ==
  /\ pc["run"] = "join" /\ alive = {}
  /\ pc' = [pc EXCEPT !["run"] = "yield"]
  /\ UNCHANGED <<alive, ret, userClosed, poolCancelled, result, outErr, nreq, ndata, queue, segNo, tokens, tracksSet, ended, tpSpawned, inCb, dlWhat, pushed, joined, scen>>

RunYield ==
  /\ pc["run"] = "yield"
  /\ outErr' = Append(outErr, result)
  /\ userClosed' = (userClosed \/ CloseAt(<<"outcome", 0>>))
  /\ pc' = [pc EXCEPT !["run"] = "done"]
  /\ UNCHANGED <<alive, ret, poolCancelled, result, nreq, ndata, queue, segNo, tokens, tracksSet, ended, tpSpawned, inCb, dlWhat, pushed, joined, scen>>

Next ==
  \/ \E g \in {"prim", "dl"} : HttpArrive(g) \/ HttpFail(g) \/ HttpStall(g) \/ HttpOK(g)
  \/ PrimSpawn \/ TracksHandoff \/ PrimOnTracks \/ PrimOnTracksRet \/ StartHandoff \/ PrimEnded
  \/ DlAfterHttp \/ DlSpawnSp \/ DlThrottle
  \/ SpPull \/ SpSpawnTp \/ EntryHandoff \/ SpJoin
  \/ TpPace \/ TpCallback \/ TpCallbackRet \/ TpSignal
  \/ \E g \in G : Cancelled(g) \/ GReturn(g) \/ GSendErrCancelled(g) \/ RunRecvErr(g)
  \/ RunSeeClose \/ RunCancel \/ RunJoin \/ RunYield
  \/ UserCloseAny

Spec == Init /\ [][Next]_vars /\ WF_vars(Next)

-----------------------------------------------------------------------------
Done == pc["run"] = "done"

AtMostOneValue == Len(outErr) <= 1 /\ (Done => Len(outErr) = 1)
NoGoroutineLeft == Done => alive = {}
NoCallbackAfterwards == Done => ~inCb
NeverNil == Done => outErr[1] # ""

\* the error that is surfaced: without Close it is the injected fault, the OnTracks error, or EOS
FaultHit == scen.fault[1] # "none" /\ scen.fault[2] < nreq
ErrorSurfaced ==
  (Done /\ ~userClosed) =>
     LET r == outErr[1] IN
     \/ FaultHit /\ scen.fault[1] \in {"status", "transport"} /\ r = scen.fault[1]
     \/ scen.tracksErr /\ r = "ontracks"
     \/ ~scen.tracksErr /\ r = "eos"
     \* a fault may race with the end of the stream / the OnTracks error on another goroutine
     \/ FaultHit /\ r \in {"eos", "ontracks", "cancelled"}

\* the client ends whenever Close was called or nothing stalls
Stalled == \E g \in G : pc[g] = "stall"
Terminates == <>[](Done \/ (Stalled /\ ~userClosed))

\* every terminal state: scenario and outcome (aggregated by bin/props/client.py)
Emit == Done => PrintT(<<"HIST", ToJson([close |-> scen.close, fault |-> scen.fault, tracksErr |-> scen.tracksErr, fmp4 |-> Fmp4,
                                          outcome |-> outErr[1], nreq |-> nreq, ndata |-> ndata])>>)
=============================================================================
