------------------------------ MODULE M3U8Trace ------------------------------
(***************************************************************************)
(* Trace validation for C14 / C15: each "case" line is one concrete        *)
(* instance of an abstract playlist value (enumerated by TLC) pushed       *)
(* through the REAL Marshal / Unmarshal; "dec" lines are decoder runs on   *)
(* malformed inputs; "tok" lines are playlists served by a real muxer.     *)
(***************************************************************************)
EXTENDS M3U8

Trace == ndJsonDeserialize("trace.ndjson")

VARIABLES l

TraceInit == l = 1 /\ TLCSet(1, 0)

Shape(toks) == [i \in 1..Len(toks) |-> [t |-> toks[i].t, a |-> toks[i].a]]

\* JSON has no sets: the group set of a variant comes back as a sequence
SeqToSet(q) == {q[i] : i \in 1..Len(q)}
FixP(p) == IF p.kind = "mv" THEN [p EXCEPT !.vars = [i \in 1..Len(p.vars) |-> [p.vars[i] EXCEPT !.grp = SeqToSet(p.vars[i].grp)]]] ELSE p

TraceNext ==
  /\ l <= Len(Trace)
  /\ l' = l + 1
  \* conformance of the Marshal transcription (evidence only): the real token shapes are Encode(p)
  /\ IF Trace[l].ev = "case" /\ Trace[l].merr = 0 /\ Trace[l].panic = 0 /\ Shape(Trace[l].tokens) # Encode(FixP(Trace[l].p))
     THEN TLCSet(1, TLCGet(1) + 1) ELSE TRUE

O == Trace[l - 1]
Has1 == l > 1 /\ l - 1 <= Len(Trace)

\* C14: Unmarshal(Marshal(p)) = p field by field, Marshal is a fixpoint on its output, the kind is detected,
\* syntactic variants decode to the same value
C14_RoundTrip ==
  (Has1 /\ O.ev = "case") =>
     /\ O.panic = 0 /\ O.merr = 0 /\ O.uerr = 0
     /\ O.eq = 1 /\ O.fix = 1 /\ O.kind = 1
     /\ \A i \in 1..Len(O.variants) : O.variants[i].same = 1

\* C15: what Marshal produces from a valid value is grammatical
C15_MarshalGrammatical == (Has1 /\ O.ev = "case" /\ O.panic = 0 /\ O.merr = 0) => Grammar(O.tokens)
\* ... and so is every playlist a muxer serves
C15_MuxerGrammatical == (Has1 /\ O.ev = "tok") => Grammar(O.tokens)
\* the decoder is total and its successes have the structure callers rely on
C15_DecoderTotal ==
  (Has1 /\ O.ev = "dec") => (O.panic = 0 /\ O.hang = 0 /\ (O.ok = 1 => (O.post = 1 /\ O.remarshal = 1)))

Post == PrintT(<<"DRIFT", TLCGet(1)>>)
=============================================================================
