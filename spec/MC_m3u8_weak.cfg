CONSTANTS
  StartWritten = FALSE
  DiscSeqOwnValue = TRUE
  TolerateUnquotedByteRange = TRUE
  ServerControlJoin = FALSE
  Emit = FALSE
INIT Init
NEXT Next
INVARIANTS RoundTripOrPrint
CHECK_DEADLOCK FALSE
