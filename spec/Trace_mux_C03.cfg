CONSTANT Want = {"c03"}
CONSTANT Conform = FALSE
INIT TraceInit
NEXT TraceNext
INVARIANTS C03_Durations
CHECK_DEADLOCK FALSE
