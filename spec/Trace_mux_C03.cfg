CONSTANT Want = {"c03"}
INIT TraceInit
NEXT TraceNext
INVARIANTS C03_Durations
CHECK_DEADLOCK FALSE
