CONSTANTS
  StartWritten = TRUE
  DiscSeqOwnValue = TRUE
  TolerateUnquotedByteRange = TRUE
  ServerControlJoin = TRUE
INIT TraceInit
NEXT TraceNext
POSTCONDITION Post
CHECK_DEADLOCK FALSE
INVARIANTS C15_MarshalGrammatical C15_MuxerGrammatical C15_DecoderTotal
