----------------------------- MODULE ClientFetch -----------------------------
(***************************************************************************)
(* Design model for C11: the client's segment-selection state machine      *)
(* (operators of ClientFetchOps.tla, one action per step of                *)
(* clientStreamDownloader) against a server whose media playlist window    *)
(* evolves arbitrarily between polls.  TLC checks the C11 statements on    *)
(* every reachable state and enumerates the playlist histories that the    *)
(* real client is then run against (bin/props/client.py).                  *)
(***************************************************************************)
EXTENDS ClientFetchOps

-----------------------------------------------------------------------------
(***************************************************************************)
(* Design model: the server's window evolves freely; the client follows.   *)
(***************************************************************************)
CONSTANTS MaxMS,        \* bound on media sequence numbers explored
          MaxN,         \* window sizes 0..MaxN
          MaxAdvance,   \* the window head/tail may advance by up to this many segments between polls
          MaxPolls,     \* length of the playlist history
          Vod, Fmp4,    \* scenario kind
          LL, CanSkip   \* Low-Latency server (CAN-BLOCK-RELOAD + preload hint), CAN-SKIP-UNTIL advertised

VARIABLES srv,    \* [ms, n, end, hint]  (hint: number of the hinted part, 0 = none)
          cl,     \* client stream state
          fetched,\* sequence of segment ids downloaded
          hist,   \* playlist versions served, in order (the scenario script)
          adv,    \* whether the server moved since the last poll (bounds stuttering)
          reqs    \* Low-Latency: the requests issued so far [kind, id, skip]

vars == <<srv, cl, fetched, hist, adv, reqs>>

Windows == [ms : 0..MaxMS, n : 0..MaxN, end : BOOLEAN, hint : {IF LL THEN 1 ELSE 0}]

FInit ==
  /\ srv \in {w \in Windows : w.ms <= 2}
  /\ cl = CInit(Fmp4)
  /\ fetched = <<>>
  /\ hist = <<>>
  /\ adv = FALSE
  /\ reqs = <<>>

\* the live window slides: the tail grows by a, the head drops d (the window never shrinks below its tail)
ServerAdvance ==
  /\ ~srv.end /\ ~adv
  /\ ~(LL /\ cl.ll)          \* a Low-Latency client never looks at the segment list again: its evolution is irrelevant
  /\ \E a \in 0..MaxAdvance, d \in 0..MaxAdvance :
       /\ a + d > 0
       /\ srv.n + a - d >= 0 /\ srv.n + a - d <= MaxN
       /\ srv.ms + d <= MaxMS
       /\ srv' = [srv EXCEPT !.ms = srv.ms + d, !.n = srv.n + a - d]
  /\ adv' = TRUE
  /\ UNCHANGED <<cl, fetched, hist, reqs>>

\* Low-Latency: the next part is published (the hint moves on), or the server stops hinting
ServerPart ==
  /\ LL /\ srv.hint # 0 /\ ~adv
  /\ \/ \E k \in 1..2 : srv' = [srv EXCEPT !.hint = srv.hint + k]
     \/ srv' = [srv EXCEPT !.hint = 0]
  /\ adv' = TRUE
  /\ UNCHANGED <<cl, fetched, hist, reqs>>

ServerEnd ==
  /\ ~srv.end
  /\ srv' = [srv EXCEPT !.end = TRUE]
  /\ adv' = TRUE
  /\ UNCHANGED <<cl, fetched, hist, reqs>>

ClientPlaylist ==
  /\ cl.phase = "pl" /\ Len(hist) < MaxPolls
  /\ LET v == [ms |-> srv.ms, n |-> srv.n, end |-> srv.end, vod |-> Vod, hint |-> srv.hint, ll |-> LL, canSkip |-> CanSkip] IN
       /\ cl' = AfterPlaylist(cl, v)
       /\ hist' = Append(hist, [ms |-> srv.ms, n |-> srv.n, end |-> srv.end, hint |-> srv.hint])
  /\ reqs' = Append(reqs, [kind |-> "pl", id |-> srv.hint, skip |-> WantsSkip(cl)])
  /\ adv' = FALSE
  /\ UNCHANGED <<srv, fetched>>

ClientInit ==
  /\ cl.phase = "init"
  /\ cl' = AfterInit(cl)
  /\ UNCHANGED <<srv, fetched, hist, adv, reqs>>

ClientSegment ==
  /\ cl.phase = "seg"
  /\ cl' = AfterSeg(cl)
  /\ fetched' = Append(fetched, cl.tgt)
  /\ UNCHANGED <<srv, hist, adv, reqs>>

\* runLowLatency: download the preload hint of the playlist in hand, then the playlist again
ClientHint ==
  /\ cl.phase = "hint"
  /\ cl' = AfterHint(cl)
  /\ reqs' = Append(reqs, [kind |-> "hint", id |-> cl.tgt, skip |-> FALSE])
  /\ UNCHANGED <<srv, fetched, hist, adv>>

FNext == ServerAdvance \/ ServerEnd \/ ServerPart \/ ClientPlaylist \/ ClientInit \/ ClientSegment \/ ClientHint
FSpec == FInit /\ [][FNext]_vars

-----------------------------------------------------------------------------
(* Design-level statements of C11 *)
Consecutive == \A i \in 1..(Len(fetched) - 1) : fetched[i + 1] = fetched[i] + 1

StartsRight ==
  (~cl.ll /\ Len(fetched) > 0) =>
     LET v == hist[1] IN
     IF Vod THEN fetched[1] = v.ms ELSE fetched[1] = v.ms + v.n - InitialDistance

\* what is fetched was listed by the playlist downloaded just before it
OnlyListed ==
  cl.phase = "seg" => (cl.tgt >= cl.pl.ms /\ cl.tgt < cl.pl.ms + cl.pl.n)

\* never more than MaxDistance behind the live edge when a segment is chosen
NotTooLate ==
  (cl.phase = "seg" /\ ~cl.pl.end /\ Len(fetched) > 0) => (cl.pl.ms + cl.pl.n - cl.tgt <= MaxDistance)

\* end of stream only after the last listed segment of an ENDLIST playlist was fetched
EOSAfterLast ==
  cl.phase = "ended" => (cl.pl.end /\ Len(fetched) > 0 /\ fetched[Len(fetched)] = cl.pl.ms + cl.pl.n - 1)

\* an error is raised instead of jumping: in the error state the wanted segment is really absent / too far / too few
ErrorsJustified ==
  cl.phase = "err" =>
    \/ cl.errc = "missing" /\ (cl.cur + 1 < cl.pl.ms \/ cl.cur + 1 >= cl.pl.ms + cl.pl.n)
    \/ cl.errc = "toolate" /\ ~cl.pl.end /\ cl.pl.ms + cl.pl.n - (cl.cur + 1) > MaxDistance
    \/ cl.errc = "notenough" /\ cl.cur = None /\ ~Vod /\ cl.pl.n < InitialDistance
    \/ cl.errc = "nosegments" /\ cl.cur = None /\ Vod /\ cl.pl.n = 0
    \/ cl.errc = "unparsable" /\ cl.pl.n = 0
    \/ cl.errc = "hintgone" /\ cl.ll /\ cl.pl.hint = 0

\* one playlist download between two segment downloads
ReloadBetween == cl.ll \/ (Len(hist) >= Len(fetched) /\ Len(hist) <= Len(fetched) + 1)

\* Low-Latency: requests alternate playlist / hint, each hint is the one the preceding playlist advertised, regular segments are
\* never fetched, delta updates are asked for exactly when CAN-SKIP-UNTIL was advertised (never on the first playlist)
LLFollowsHints ==
  cl.ll => /\ fetched = <<>>
        /\ \A i \in 1..Len(reqs) :
              /\ reqs[i].kind = (IF i % 2 = 1 THEN "pl" ELSE "hint")
              /\ (reqs[i].kind = "hint" => reqs[i].id = reqs[i - 1].id /\ reqs[i].id # 0)
              /\ (reqs[i].kind = "pl" => reqs[i].skip = (i > 1 /\ CanSkip))
LLStopsWithoutHint ==
  (cl.ll /\ cl.phase = "err" /\ cl.errc = "hintgone") => (reqs # <<>> /\ reqs[Len(reqs)].kind = "pl" /\ reqs[Len(reqs)].id = 0)

-----------------------------------------------------------------------------
(* Script generation: every maximal history (client stopped or history bound reached) is printed once *)
Stopped == cl.phase \in {"ended", "err"} \/ (cl.phase = "pl" /\ Len(hist) = MaxPolls)
EmitHist == Stopped => PrintT(<<"HIST", ToJson([vod |-> Vod, fmp4 |-> Fmp4, versions |-> hist, fetched |-> fetched, phase |-> cl.phase, errc |-> cl.errc])>>)
=============================================================================
