CONSTANT Want = {"c18"}
INIT TraceInit
NEXT TraceNext
INVARIANTS C18_Retention
CHECK_DEADLOCK FALSE
