CONSTANT Want = {"c18"}
CONSTANT Conform = FALSE
INIT TraceInit
NEXT TraceNext
INVARIANTS C18_Retention
CHECK_DEADLOCK FALSE
