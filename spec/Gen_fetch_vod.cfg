SPECIFICATION FSpec
CONSTANTS
  InitialDistance = 3
  Variant = "ok"
  MaxDistance = 5
  MaxMS = 12
  MaxN = 10
  MaxAdvance = 4
  MaxPolls = 8
  Vod = TRUE
  Fmp4 = TRUE
  LL = FALSE
  CanSkip = FALSE
INVARIANTS EmitHist
CHECK_DEADLOCK FALSE
