CONSTANT Want = {"c19"}
CONSTANT Conform = FALSE
INIT TraceInit
NEXT TraceNext
INVARIANTS C19_RegularParts
CHECK_DEADLOCK FALSE
