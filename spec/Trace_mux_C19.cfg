CONSTANT Want = {"c19"}
INIT TraceInit
NEXT TraceNext
INVARIANTS C19_RegularParts
CHECK_DEADLOCK FALSE
