SPECIFICATION TraceSpec
CONSTANTS
  InitialDistance = 3
  MaxDistance = 5
  Variant = "ok"
  Want = {"c10"}
  TolerateStaleAnchor = TRUE
INVARIANTS C10_Delivery
POSTCONDITION Post
CHECK_DEADLOCK FALSE
