SPECIFICATION Spec
CONSTANTS
  NSeg = 2
  NPart = 2
  TokenCap = 0
  Fmp4 = TRUE
  Variant = "pushNoCtx"
  MaxReq = 5
INVARIANTS AtMostOneValue NoGoroutineLeft NoCallbackAfterwards NeverNil ErrorSurfaced
PROPERTIES Terminates
CHECK_DEADLOCK FALSE
