--------------------------- MODULE SegQueueTrace ---------------------------
(***************************************************************************)
(* Trace validation for C20 (queue level).  Each "cmd" line is one         *)
(* scheduler command executed on the REAL clientSegmentQueue followed by   *)
(* the statuses observed once every goroutine was idle, gated or blocked   *)
(* (read from the Go runtime).  The model takes the command, then silent   *)
(* wake-up steps until quiescent; its state must then match the            *)
(* observation (conformance).  The C20_* predicates are evaluated on the   *)
(* OBSERVED values only.                                                   *)
(***************************************************************************)
EXTENDS SegQueue

Trace == ndJsonDeserialize("trace.ndjson")

VARIABLES l, mode, oPushed, oPulled, oCancelled, oNeedWait, oAltOK

ovars == <<oPushed, oPulled, oCancelled, oNeedWait, oAltOK>>
tvars == <<vars, l, mode, ovars>>

Max(a, b) == IF a > b THEN a ELSE b

TraceInit ==
  /\ Init /\ l = 1 /\ mode = "ok" /\ TLCSet(1, 1) /\ TLCSet(2, {})
  /\ oPushed = 0 /\ oPulled = <<>> /\ oCancelled = FALSE /\ oNeedWait = FALSE /\ oAltOK = TRUE

\* conformance: the quiescent model state is what was observed after the previous command
Matches(o) ==
  /\ o.P = P.pc /\ o.C = C.pc
  /\ o.len = Len(q)
  /\ o.pret = pret /\ o.cret = cret

PrevOK == (l > 1 /\ Trace[l - 1].ev = "cmd") => Matches(Trace[l - 1])   \* (after a skip line nothing is compared)

ObsUpdate(o) ==
  /\ oPushed' = IF o.c = "push" THEN oPushed + 1 ELSE oPushed
  /\ oPulled' = IF o.cdone = 1 /\ o.cret >= 0 THEN Append(oPulled, o.cret) ELSE oPulled
  /\ oCancelled' = (oCancelled \/ o.c = "cancel")
  /\ oAltOK' = (oAltOK /\ ~(o.c = "push" /\ (oNeedWait \/ oCancelled)))
  /\ oNeedWait' = IF o.c = "push" THEN TRUE
                  ELSE IF o.pdone = 1 /\ o.pret = "true" THEN FALSE ELSE oNeedWait

\* conforming step: the model takes the same command
TraceCmd ==
  /\ mode = "ok" /\ l <= Len(Trace) /\ Trace[l].ev = "cmd"
  /\ Quiescent /\ PrevOK
  /\ Cmd(Trace[l].c)
  /\ hist' = hist /\ mode' = mode
  /\ ObsUpdate(Trace[l])
  /\ l' = l + 1

\* the real code left the model (spec drift, DESIGN section 3): the model is frozen until the next reset,
\* the observation variables - and with them every C20_* predicate - keep being evaluated
TraceDriftCmd ==
  /\ l <= Len(Trace) /\ Trace[l].ev \in {"cmd", "skip"}
  /\ \/ mode = "drift"
     \/ /\ mode = "ok" /\ Quiescent
        /\ \/ ~PrevOK
           \/ Trace[l].ev = "cmd" /\ ~ENABLED Cmd(Trace[l].c)
           \/ Trace[l].ev = "skip" /\ ENABLED Cmd(Trace[l].c)
  /\ mode' = "drift"
  /\ IF Trace[l].ev = "cmd" THEN ObsUpdate(Trace[l]) ELSE UNCHANGED ovars
  /\ UNCHANGED vars
  /\ l' = l + 1

\* the harness could not issue the scripted command (the real goroutine is not idle / not at its gate):
\* conforming iff the command is not enabled in the model either
TraceSkip ==
  /\ mode = "ok" /\ l <= Len(Trace) /\ Trace[l].ev = "skip"
  /\ Quiescent /\ PrevOK /\ ~ENABLED Cmd(Trace[l].c)
  /\ UNCHANGED <<vars, ovars, mode>>
  /\ l' = l + 1

TraceEnd ==
  /\ l <= Len(Trace) /\ Trace[l].ev = "end"
  /\ \/ mode = "drift" /\ mode' = mode
     \/ mode = "ok" /\ Quiescent /\ PrevOK /\ mode' = mode /\ TLCSet(2, TLCGet(2) \cup {l})
     \/ mode = "ok" /\ Quiescent /\ ~PrevOK /\ mode' = "drift"
  /\ UNCHANGED <<vars, ovars>>
  /\ l' = l + 1

TraceReset ==
  /\ l <= Len(Trace) /\ Trace[l].ev = "reset"
  /\ q' = <<>> /\ pushed' = 0 /\ pulled' = <<>>
  /\ didPush' = 1 /\ didPull' = 2 /\ closed' = {} /\ nextCh' = 3
  /\ P' = Idle /\ C' = Idle /\ cancelled' = FALSE
  /\ pret' = "none" /\ cret' = -3 /\ needWait' = FALSE /\ hist' = hist
  /\ oPushed' = 0 /\ oPulled' = <<>> /\ oCancelled' = FALSE /\ oNeedWait' = FALSE /\ oAltOK' = TRUE
  /\ mode' = "ok"
  /\ l' = l + 1

TraceInternal == mode = "ok" /\ Internal /\ UNCHANGED <<l, mode, ovars>>

TraceNext == TraceCmd \/ TraceDriftCmd \/ TraceSkip \/ TraceEnd \/ TraceReset \/ TraceInternal
TraceSpec == TraceInit /\ [][TraceNext]_tvars

HighWater == TLCSet(1, Max(TLCGet(1), l))
Post == PrintT(<<"HW", TLCGet(1)>>) /\ PrintT(<<"CONFORMING", Cardinality(TLCGet(2))>>)

-----------------------------------------------------------------------------
(* C20 predicates over the observations of the real queue *)

O == Trace[l - 1]
HasObs == l > 1 /\ l - 1 <= Len(Trace) /\ O.ev = "cmd"

IsPrefixOfIota(s) == \A i \in 1..Len(s) : s[i] = i

C20_FIFO        == HasObs => IsPrefixOfIota(oPulled) /\ Len(oPulled) + O.len = oPushed
C20_NoLostWakeC == (HasObs /\ ~oCancelled /\ O.C = "sel") => O.len = 0
C20_NoLostWakeP == (HasObs /\ ~oCancelled /\ O.P = "sel") => O.len > N
C20_CancelPrompt == (HasObs /\ oCancelled) => (O.P # "sel" /\ O.C # "sel")
C20_LookAhead   == (HasObs /\ oAltOK) => O.len <= N + 1
\* a goroutine blocked anywhere else than in its select (e.g. on the mutex) is stuck
C20_NotStuck    == HasObs => (O.P \in {"idle", "gate", "sel"} /\ O.C \in {"idle", "gate", "sel"})
=============================================================================
