CONSTANTS
  StartWritten = TRUE
  DiscSeqOwnValue = TRUE
  TolerateUnquotedByteRange = FALSE
  ServerControlJoin = TRUE
INIT TraceInit
NEXT TraceNext
INVARIANTS C14_RoundTrip C15_MarshalGrammatical C15_MuxerGrammatical C15_DecoderTotal
POSTCONDITION Post
CHECK_DEADLOCK FALSE
