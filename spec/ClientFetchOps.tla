--------------------------- MODULE ClientFetchOps ---------------------------
(***************************************************************************)
(* The client's segment-selection state machine (C11) against a server     *)
(* whose media playlist evolves arbitrarily.                               *)
(*                                                                         *)
(* One action per step of clientStreamDownloader (client_stream_downloader *)
(* .go): first playlist, init (fMP4), Select = fillSegmentQueue's choice   *)
(* of the segment, segment download, playlist reload; Low-Latency loop:    *)
(* preload hint, playlist (with _HLS_skip=YES iff CAN-SKIP-UNTIL).         *)
(* The server is a sliding window [ms, ms+n) that may advance by any       *)
(* amount between two polls and may end at any time.                       *)
(*                                                                         *)
(* The pure operators Select / AfterSeg / AfterPlaylist are shared with    *)
(* ClientRun.tla, which steps them over request logs of the REAL client.   *)
(***************************************************************************)
EXTENDS Integers, Sequences, FiniteSets, TLC, Json

CONSTANTS InitialDistance,   \* clientLiveInitialDistance = 3
          MaxDistance,       \* clientLiveMaxDistanceFromEnd = 5
          Variant            \* "ok" = the rule as implemented; weakened rules used as vacuity guards:
                             \* "ge" (too late already AT the limit), "jump" (a missing next segment -> jump to the live edge),
                             \* "skipAlways" (delta updates requested although CAN-SKIP-UNTIL was not advertised)

None == -1

(***************************************************************************)
(* Select: which segment is fetched next, given the id of the last fetched *)
(* one (None at the start), the playlist just downloaded and whether the   *)
(* FIRST playlist was VOD.  Result: [ok, id] or [ok |-> FALSE, err].       *)
(***************************************************************************)
Select(cur, pl, vod) ==
  IF cur = None
  THEN IF vod
       THEN IF pl.n = 0 THEN [ok |-> FALSE, id |-> None, err |-> "nosegments"]
            ELSE [ok |-> TRUE, id |-> pl.ms, err |-> ""]
       ELSE IF pl.n < InitialDistance THEN [ok |-> FALSE, id |-> None, err |-> "notenough"]
            ELSE [ok |-> TRUE, id |-> pl.ms + pl.n - InitialDistance, err |-> ""]
  ELSE LET idx == cur + 1 - pl.ms IN
       IF idx < 0 \/ idx >= pl.n
       THEN IF Variant = "jump" /\ pl.n >= InitialDistance
            THEN [ok |-> TRUE, id |-> pl.ms + pl.n - InitialDistance, err |-> ""]
            ELSE [ok |-> FALSE, id |-> None, err |-> "missing"]
       ELSE IF ~pl.end /\ (pl.n - idx > MaxDistance \/ (Variant = "ge" /\ pl.n - idx = MaxDistance)) THEN [ok |-> FALSE, id |-> None, err |-> "toolate"]
       ELSE [ok |-> TRUE, id |-> cur + 1, err |-> ""]

\* after segment `id` of playlist `pl` was downloaded: end of stream or reload
IsLast(id, pl) == pl.end /\ pl.n > 0 /\ id = pl.ms + pl.n - 1

(***************************************************************************)
(* Client stream state.  phase:                                            *)
(*   "pl"     the (first or next) playlist must be downloaded              *)
(*   "init"   fMP4: the init segment must be downloaded                    *)
(*   "seg"    segment tgt must be downloaded                               *)
(*   "hint"   Low-Latency: part tgt (the preload hint) must be downloaded  *)
(*   "ended"  nil sentinel queued: nothing more is requested               *)
(*   "err"    the downloader returned error errc: nothing more requested   *)
(***************************************************************************)
CInit(fmp4) == [phase |-> "pl", cur |-> None, tgt |-> None, vod |-> FALSE, first |-> TRUE, inited |-> ~fmp4,
                ll |-> FALSE, skip |-> FALSE, errc |-> "", pl |-> [ms |-> 0, n |-> 0, end |-> FALSE, hint |-> 0], nseg |-> 0, firstSeg |-> None]

\* choose the next request after a playlist is in hand (and init, if any, is done)
Choose(c) ==
  IF c.ll
  THEN IF c.pl.hint = 0 THEN [c EXCEPT !.phase = "err", !.errc = "hintgone"]
       ELSE [c EXCEPT !.phase = "hint", !.tgt = c.pl.hint]
  ELSE LET r == Select(c.cur, c.pl, c.vod) IN
       IF r.ok THEN [c EXCEPT !.phase = "seg", !.tgt = r.id]
       ELSE [c EXCEPT !.phase = "err", !.errc = r.err]

\* a playlist [ms, n, end, vod, hint, ll, canSkip] was downloaded
AfterPlaylist(c, v) ==
  LET c1 == [c EXCEPT !.pl = [ms |-> v.ms, n |-> v.n, end |-> v.end, hint |-> v.hint],
                      !.vod = IF c.first THEN v.vod ELSE c.vod,
                      !.ll = IF c.first THEN (v.ll /\ v.hint # 0) ELSE c.ll,
                      !.skip = IF c.first THEN v.canSkip ELSE c.skip,
                      !.first = FALSE]
  IN \* a playlist without any segment cannot be classified by playlist.Unmarshal (findType looks for #EXTINF) and is
     \* rejected with io.EOF: the client stops with that error ("no segments found" is unreachable for n = 0)
     IF v.n = 0 THEN [c1 EXCEPT !.phase = "err", !.errc = "unparsable"]
     ELSE IF ~c1.inited THEN [c1 EXCEPT !.phase = "init"] ELSE Choose(c1)

AfterInit(c) == Choose([c EXCEPT !.inited = TRUE])

AfterSeg(c) ==
  LET c1 == [c EXCEPT !.cur = c.tgt, !.nseg = c.nseg + 1, !.firstSeg = IF c.firstSeg = None THEN c.tgt ELSE c.firstSeg] IN
  IF IsLast(c.tgt, c.pl) THEN [c1 EXCEPT !.phase = "ended"] ELSE [c1 EXCEPT !.phase = "pl"]

AfterHint(c) == [c EXCEPT !.cur = c.tgt, !.nseg = c.nseg + 1, !.phase = "pl",
                          !.firstSeg = IF c.firstSeg = None THEN c.tgt ELSE c.firstSeg]

\* the playlist request of phase "pl" carries _HLS_skip=YES exactly in Low-Latency mode with CAN-SKIP-UNTIL
WantsSkip(c) == ~c.first /\ c.ll /\ (c.skip \/ Variant = "skipAlways")

=============================================================================
