CONSTANT Want = {}
CONSTANT Conform = FALSE
INIT TraceInit
NEXT TraceNext
INVARIANTS C07_AfterClose
CHECK_DEADLOCK FALSE
