SPECIFICATION Spec
CONSTANTS
  NSeg = 2
  NPart = 1
  TokenCap = 0
  Fmp4 = TRUE
  Variant = "ok"
  MaxReq = 5
INVARIANTS AtMostOneValue NoGoroutineLeft NoCallbackAfterwards NeverNil ErrorSurfaced Emit
PROPERTIES Terminates
CHECK_DEADLOCK FALSE
