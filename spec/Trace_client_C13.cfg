SPECIFICATION TraceSpec
CONSTANTS
  InitialDistance = 3
  MaxDistance = 5
  Variant = "ok"
  Want = {"c13"}
  TolerateStaleAnchor = TRUE
INVARIANTS C13_Robustness
POSTCONDITION Post
CHECK_DEADLOCK FALSE
