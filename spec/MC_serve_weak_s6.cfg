CONSTANTS
  SegCount = 3
  NumGaps = 2
  MaxSegs = 3
  MaxPartsPerSeg = 3
  Handlers <- H2
  Reqs <- RSmall
  StreamClosedUnderLock = TRUE
  HintUnlocksOnClosed = TRUE
  RolloverChecksOpen = TRUE
  GapIsContent = FALSE
  MaxCmds = 10
  Record = TRUE
  CloseAfter = 0
  Emit = FALSE
INIT Init
NEXT Next
INVARIANTS AttackC06
CHECK_DEADLOCK FALSE
