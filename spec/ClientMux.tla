------------------------------ MODULE ClientMux ------------------------------
(***************************************************************************)
(* Trace validation for C09: a real Client reading a real Muxer (written   *)
(* in real time) through an in-process transport.  Lines, in the order the *)
(* events happened:                                                        *)
(*   reset  configuration of the muxer, tracks, which stream leads         *)
(*   wr     one unit accepted by the muxer (track, id, dts, wall clock)    *)
(*   dl     a segment / part download announced by the client              *)
(*   tracks OnTracks of the client + what it should have been (exp)        *)
(*   data   one delivered unit: client track, muxer track and id found in  *)
(*          the payload, byte identity, pts, dts, AbsoluteTime + the exact *)
(*          error terms computed by the annotator                          *)
(*   sg     (after the run) units held by each listed segment              *)
(*   wait   how the client ended                                           *)
(* The monitor keeps, per muxer track, the highest id written and, per     *)
(* client track, the last id delivered.                                    *)
(***************************************************************************)
EXTENDS Integers, Sequences, FiniteSets, TLC, Json

Trace == ndJsonDeserialize("trace.ndjson")

CONSTANT TolerateForeignAnchor   \* TRUE: the recorded finding (a unit of an audio rendition is dated with the date-time of whichever
                                 \* segment the LEADING stream processed last, not with that of its own segment) is not reported again

VARIABLES l, cfg, wmax, last, ndel, f, why, st

tvars == <<l, cfg, wmax, last, ndel, f, why, st>>

NoCfg == [variant |-> "none"]
St0 == [tracks |-> FALSE, waited |-> FALSE, nct |-> 0]

TraceInit == l = 1 /\ cfg = NoCfg /\ wmax = <<>> /\ last = <<>> /\ ndel = <<>> /\ f = TRUE /\ why = "" /\ st = St0 /\ TLCSet(2, 0)

Fail(ff, wy, name, cond) == IF ~cond /\ ff THEN <<FALSE, IF wy = "" THEN name ELSE wy>> ELSE <<ff, wy>>
RECURSIVE FailAll(_, _, _)
FailAll(ff, wy, cl) == IF cl = <<>> THEN <<ff, wy>> ELSE LET r == Fail(ff, wy, cl[1][1], cl[1][2]) IN FailAll(r[1], r[2], Tail(cl))

NT == Len(cfg.tracks)

TraceReset ==
  /\ l <= Len(Trace) /\ Trace[l].ev = "reset"
  /\ cfg' = Trace[l]
  /\ wmax' = [t \in 1..Len(Trace[l].tracks) |-> 0]
  /\ last' = [t \in 1..Len(Trace[l].tracks) |-> 0]     \* indexed by MUXER track (each is read by at most one client track)
  /\ ndel' = [t \in 1..Len(Trace[l].tracks) |-> 0]
  /\ st' = St0
  /\ UNCHANGED <<f, why>>
  /\ l' = l + 1

TraceWr ==
  /\ l <= Len(Trace) /\ Trace[l].ev = "wr"
  /\ wmax' = IF Trace[l].ok = 1 THEN [wmax EXCEPT ![Trace[l].t] = Trace[l].id] ELSE wmax
  /\ UNCHANGED <<cfg, last, ndel, f, why, st>>
  /\ l' = l + 1

TraceSkip ==
  /\ l <= Len(Trace) /\ Trace[l].ev \in {"dl", "sg", "mv", "decerr", "wrerr", "harnesserr"}
  /\ UNCHANGED <<cfg, wmax, last, ndel, f, why, st>>
  /\ l' = l + 1

TraceTracks ==
  /\ l <= Len(Trace) /\ Trace[l].ev = "tracks"
  /\ LET e == Trace[l]
         r == FailAll(f, why, <<
                <<"C09_TracksOnce", ~st.tracks>>,
                <<"C09_TrackList", e.list = e.exp>>
              >>)
     IN f' = r[1] /\ why' = r[2]
  /\ st' = [st EXCEPT !.tracks = TRUE, !.nct = Len(Trace[l].list)]
  /\ UNCHANGED <<cfg, wmax, last, ndel>>
  /\ l' = l + 1

Gapless == cfg.variant \in {"mpegts", "fmp4"}

TraceData ==
  /\ l <= Len(Trace) /\ Trace[l].ev = "data"
  /\ LET e == Trace[l]
         mt == e.mt
         okmt == mt >= 1 /\ mt <= NT
         r == FailAll(f, why, <<
                <<"C09_TracksBeforeData", st.tracks>>,
                <<"C09_ByteIdentical", okmt /\ e.same = 1 /\ e.mt = e.emt>>,
                <<"C09_WrittenBefore", okmt => (e.id >= 1 /\ e.id <= wmax[mt])>>,
                <<"C09_OnceInOrder", okmt => e.id > last[mt]>>,
                <<"C09_NoGaps", (okmt /\ Gapless /\ last[mt] # 0) => e.id = last[mt] + 1>>,
                <<"C09_NeverNegative", e.pts >= 0 /\ e.dts >= 0>>,
                <<"C09_DTS", e.dd = 0>>,
                <<"C09_PTS", e.dp = 0>>,
                <<"C09_AbsoluteTime", e.da = 0 \/ (TolerateForeignAnchor /\ e.foreign = 1)>>,
                <<"C09_NoCallbackAfterEnd", ~st.waited>>
              >>)
     IN /\ f' = r[1] /\ why' = r[2]
        /\ last' = IF okmt THEN [last EXCEPT ![mt] = e.id] ELSE last
        /\ ndel' = IF okmt THEN [ndel EXCEPT ![mt] = ndel[mt] + 1] ELSE ndel
  /\ UNCHANGED <<cfg, wmax, st>>
  /\ l' = l + 1

\* how the run may end: closed by the harness after the tail, or out of segments once the writer stopped
TraceWait ==
  /\ l <= Len(Trace) /\ Trace[l].ev = "wait"
  /\ LET e == Trace[l]
         td0 == FALSE
         r == FailAll(f, why, <<
                <<"C09_ClientKeptUp", td0 \/ (e.got = 1 /\ e.alive = 0 /\ e.errc \in {"terminated", "missing"})>>,
                <<"C09_EveryTrackDelivered", td0 \/ (\A t \in 1..NT : e.expd[t] = 1 => ndel[t] > 0)>>
              >>)
     IN f' = r[1] /\ why' = r[2]
  /\ st' = [st EXCEPT !.waited = TRUE]
  /\ UNCHANGED <<cfg, wmax, last, ndel>>
  /\ l' = l + 1

TraceEnd ==
  /\ l <= Len(Trace) /\ Trace[l].ev = "end"
  /\ TLCSet(2, TLCGet(2) + 1)
  /\ UNCHANGED <<cfg, wmax, last, ndel, f, why, st>>
  /\ l' = l + 1

TraceNext == TraceReset \/ TraceWr \/ TraceSkip \/ TraceTracks \/ TraceData \/ TraceWait \/ TraceEnd
TraceSpec == TraceInit /\ [][TraceNext]_tvars
Post == PrintT(<<"TRACES", TLCGet(2)>>)

C09_Reproduces == f
=============================================================================
