------------------------------- MODULE HlsMuxer -------------------------------
(***************************************************************************)
(* Implementation-shaped model of the muxer's sequential core:             *)
(* muxer_segmenter.go (parameter detection, first-random-access gate,      *)
(* fMP4 look-ahead sample, segment / part rotation decisions, part         *)
(* duration adjustment), muxer_stream.go (window, gap entries, ids,        *)
(* target durations, init generation), muxer_part.go / muxer_segment_*.go  *)
(* (size limit, independence flag) - one Write call = one MWrite.          *)
(*                                                                         *)
(* The model is functional: the whole muxer is one record `ms`;            *)
(* MWrite(cfg, ms, w) is the state after the Write call w (the same record *)
(* shape as a "write" line of a trace), MRender(cfg, ms) is what an HTTP   *)
(* client would observe afterwards, in the observation-record shape of     *)
(* MuxMonitor.tla.  TLC checks the monitor's clauses on every reachable    *)
(* state of small configurations (design check); MuxTrace.tla steps the    *)
(* model next to the real muxer and compares MRender with the observation  *)
(* (conformance).                                                          *)
(*                                                                         *)
(* Time: ticks of each track's own clock for unit time stamps; segment /   *)
(* part times and thresholds in ticks of the LEADING track (DESIGN 4: the  *)
(* ns comparisons of the code are exact in ticks for whole-ms thresholds). *)
(***************************************************************************)
EXTENDS MuxMonitor

NoUnit == [id |-> 0]
NoSeg  == [id |-> -1]
NoPart == [id |-> -1]

IsVar(cfg, v) == cfg.variant = v
LeadRate(cfg) == cfg.tracks[cfg.lead].rate

\* leading-track ticks of a time stamp of track t (the muxer converts through ns; identical rates in practice
\* for the leading track itself, which is the only one whose time is used for decisions)
StreamTracks(cfg, s) == cfg.streams[s].tracks
LeadingStream(cfg, s) == s = cfg.leadStream

-----------------------------------------------------------------------------
(* initial state *)

MInit(cfg) ==
  [ tk      |-> [t \in 1..NT(cfg) |-> [ra1 |-> FALSE, held |-> NoUnit, samples |-> <<>>]],
    pendChg |-> FALSE,
    gen     |-> 1,
    durs    |-> {}, adj |-> 0, frozen |-> FALSE,
    adjq    |-> <<>>,                  \* values reported by the real code during the current Write (trace mode)
    st      |-> [s \in 1..NS(cfg) |->
                   [ win |-> <<>>, open |-> NoSeg, opart |-> NoPart,
                     nextSeg |-> FirstSegId(cfg), nextPart |-> 0, del |-> 0,
                     td |-> 0, pt |-> 0, initGen |-> 0,
                     seen |-> {} ]],
    err     |-> FALSE ]

-----------------------------------------------------------------------------
(* part duration adjustment (Low-Latency): smallest duration on the 5 ms grid from PartMinDuration that is
   compatible with every sample duration seen so far.  In configurations whose tick is a whole number of
   ns-exact milliseconds (cfg.msd = 1: one tick = 1/msn ms... ) the code's integer arithmetic is
   reproduced exactly; for real clock rates the trace supplies the value the code chose (hook seg.adjusted)
   and the model only checks that it lies in the bracket of DESIGN section 4. *)

CeilDiv(a, b) == (a + b - 1) \div b

\* a, sd in ticks of the leading track
CompatStrict(a, sd) == sd <= a /\ 100 * a > 85 * (CeilDiv(a, sd) + 1) * sd
CompatLoose(a, sd)  == sd <= a /\ 100 * a >= 85 * CeilDiv(a, sd) * sd
CompatExact(a, sd)  == sd <= a /\ 100 * a > 85 * CeilDiv(a, sd) * sd

Grid5(cfg) == IF "grid" \in DOMAIN cfg THEN cfg.grid ELSE (5 * cfg.msd) \div cfg.msn   \* 5 ms in ticks
MaxAdj(cfg) == 1000 * Grid5(cfg)                                                        \* 5 s

RECURSIVE FindCompat(_, _, _)
FindCompat(cfg, a, durs) ==
  IF a >= MaxAdj(cfg) \/ \A sd \in durs : CompatExact(a, sd) THEN a
  ELSE FindCompat(cfg, a + Grid5(cfg), durs)

\* the value chosen by the code is acceptable iff it is on the grid, loosely compatible with every duration,
\* and no smaller grid value is strictly compatible with all of them
RECURSIVE NoSmallerStrict(_, _, _, _)
NoSmallerStrict(cfg, a, lim, durs) ==
  IF a >= lim THEN TRUE
  ELSE ~(\A sd \in durs : CompatStrict(a, sd)) /\ NoSmallerStrict(cfg, a + Grid5(cfg), lim, durs)

-----------------------------------------------------------------------------
(* stream-level operations *)

PartDur(p) == p.end - p.start
SegDur(g)  == IF g.gap = 1 THEN g.dur ELSE g.end - g.start

AllWinParts(st) ==
  CatSeq([i \in 1..Len(st.win) |-> IF st.win[i].gap = 1 THEN <<>> ELSE st.win[i].parts])

MaxOfSeq(s) == IF s = <<>> THEN 0 ELSE LET RECURSIVE M(_) M(x) == IF Len(x) = 1 THEN x[1] ELSE Max(x[1], M(Tail(x))) IN M(s)

PartTargetOf(cfg, st) ==   \* ms, rounded up
  LET ps == AllWinParts(st) \o (IF st.open.id >= 0 THEN st.open.parts ELSE <<>>)
      mx == MaxOfSeq([i \in 1..Len(ps) |-> PartDur(ps[i])])
  IN CeilMs(cfg, mx)

\* muxer_stream.go targetDuration: the largest rounded EXTINF, at least 1
TargetOf(cfg, st) == Max(1, MaxOfSeq([i \in 1..Len(st.win) |-> RoundSec(cfg, SegDur(st.win[i]))]))

\* units of the stream's tracks buffered for the open part, drained into the finalized part
DrainTracks(cfg, ms, s) ==
  CatSeq([i \in 1..Len(StreamTracks(cfg, s)) |->
            LET t == StreamTracks(cfg, s)[i] IN
            IF ms.tk[t].samples = <<>> THEN <<>> ELSE <<[t |-> t, u |-> ms.tk[t].samples]>>])

ClearTracks(cfg, ms, s) ==
  [ms EXCEPT !.tk = [t \in 1..NT(cfg) |->
       IF \E i \in 1..Len(StreamTracks(cfg, s)) : StreamTracks(cfg, s)[i] = t
       THEN [ms.tk[t] EXCEPT !.samples = <<>>] ELSE ms.tk[t]]]

\* muxerStream.rotateParts (fMP4 variants)
RotatePartsS(cfg, ms, s, nextT, createNew) ==
  LET st   == ms.st[s]
      part == [st.opart EXCEPT !.end = nextT, !.tr = DrainTracks(cfg, ms, s)]
      ms1  == ClearTracks(cfg, ms, s)
      np   == st.nextPart + 1
      open1 == IF IsVar(cfg, "ll") THEN [st.open EXCEPT !.parts = Append(st.open.parts, part)]
               ELSE [st.open EXCEPT !.lastPart = part]       \* plain fMP4: the single fragment of the segment
      st1  == [st EXCEPT !.nextPart = np, !.open = open1,
                         !.opart = IF createNew THEN [id |-> np, start |-> nextT, end |-> nextT, indep |-> 0, tr |-> <<>>]
                                   ELSE NoPart]
      st2  == IF LeadingStream(cfg, s) THEN [st1 EXCEPT !.pt = PartTargetOf(cfg, st1)] ELSE st1
  IN [ms1 EXCEPT !.st[s] = st2]

\* weakened variants of the model (vacuity guards: TLC must refute each of them against the property clauses; trace
\* configurations carry no `weak` field)
Weak(cfg, name) == "weak" \in DOMAIN cfg /\ cfg.weak = name

\* muxerStream.rotateSegments
RotateSegmentsS(cfg, ms, s, nextT, nextNtp, force) ==
  LET ms1 == IF IsVar(cfg, "mpegts") THEN ms ELSE RotatePartsS(cfg, ms, s, nextT, FALSE)
      st  == ms1.st[s]
      seg == [st.open EXCEPT !.end = nextT]
      gaps == IF IsVar(cfg, "ll") /\ st.win = <<>>
              THEN [i \in 1..NumGaps(cfg) |-> [id |-> -1, gap |-> 1, dur |-> SegDur(seg)]]
              ELSE <<>>
      w1  == st.win \o gaps \o <<seg>>
      over == Len(w1) > (IF Weak(cfg, "keepOneMore") THEN cfg.segCount + 1 ELSE cfg.segCount)
      w2  == IF over THEN Tail(w1) ELSE w1
      ns  == st.nextSeg + 1
      newOpen == IF IsVar(cfg, "mpegts")
                 THEN [id |-> ns, gap |-> 0, start |-> nextT, end |-> nextT, ntp |-> nextNtp, forced |-> FALSE,
                       size |-> 0, cnt |-> 0, parts |-> <<>>, units |-> <<>>]
                 ELSE [id |-> ns, gap |-> 0, start |-> nextT, end |-> nextT, ntp |-> nextNtp, forced |-> force,
                       size |-> 0, cnt |-> 0, parts |-> <<>>, units |-> <<>>, lastPart |-> NoPart]
      st1 == [st EXCEPT !.win = w2, !.del = IF over THEN st.del + 1 ELSE st.del,
                        !.nextSeg = ns, !.open = newOpen,
                        !.initGen = IF ~IsVar(cfg, "mpegts") /\ (st.initGen = 0 \/ seg.forced) THEN ms1.gen ELSE st.initGen,
                        !.opart = IF IsVar(cfg, "mpegts") THEN NoPart
                                  ELSE [id |-> st.nextPart, start |-> nextT, end |-> nextT, indep |-> 0, tr |-> <<>>]]
      st2 == IF LeadingStream(cfg, s)
             THEN LET T == TargetOf(cfg, st1) IN [st1 EXCEPT !.td = IF st1.td = 0 THEN T ELSE Max(st1.td, T)]
             ELSE st1
  IN [ms1 EXCEPT !.st[s] = st2]

\* Muxer.rotatePartsInner / rotateSegmentsInner: leading stream first, the others copy its targets
OtherStreams(cfg) == [i \in 1..(NS(cfg) - 1) |-> IF i < cfg.leadStream THEN i ELSE i + 1]

CopyTargets(cfg, m, s, copyTd) ==
  LET L == m.st[cfg.leadStream]
  IN [m EXCEPT !.st[s].pt = L.pt, !.st[s].td = IF copyTd THEN L.td ELSE m.st[s].td]

RECURSIVE FoldParts(_, _, _, _)
FoldParts(cfg, ms, ss, nextT) ==
  IF ss = <<>> THEN ms
  ELSE FoldParts(cfg, CopyTargets(cfg, RotatePartsS(cfg, ms, Head(ss), nextT, TRUE), Head(ss), FALSE), Tail(ss), nextT)

RECURSIVE FoldSegs(_, _, _, _, _, _)
FoldSegs(cfg, ms, ss, nextT, nextNtp, force) ==
  IF ss = <<>> THEN ms
  ELSE FoldSegs(cfg, CopyTargets(cfg, RotateSegmentsS(cfg, ms, Head(ss), nextT, nextNtp, force), Head(ss), TRUE),
                Tail(ss), nextT, nextNtp, force)

RotatePartsAll(cfg, ms, nextT) ==
  FoldParts(cfg, RotatePartsS(cfg, ms, cfg.leadStream, nextT, TRUE), OtherStreams(cfg), nextT)

RotateSegmentsAll(cfg, ms, nextT, nextNtp, force) ==
  FoldSegs(cfg, RotateSegmentsS(cfg, ms, cfg.leadStream, nextT, nextNtp, force), OtherStreams(cfg), nextT, nextNtp, force)

CreateFirstAll(cfg, ms, startT, ntp) ==
  [ms EXCEPT !.st = [s \in 1..NS(cfg) |->
     [ms.st[s] EXCEPT
        !.open = IF IsVar(cfg, "mpegts")
                 THEN [id |-> ms.st[s].nextSeg, gap |-> 0, start |-> startT, end |-> startT, ntp |-> ntp, forced |-> FALSE,
                       size |-> 0, cnt |-> 0, parts |-> <<>>, units |-> <<>>]
                 ELSE [id |-> ms.st[s].nextSeg, gap |-> 0, start |-> startT, end |-> startT, ntp |-> ntp, forced |-> FALSE,
                       size |-> 0, cnt |-> 0, parts |-> <<>>, units |-> <<>>, lastPart |-> NoPart],
        !.opart = IF IsVar(cfg, "mpegts") THEN NoPart
                  ELSE [id |-> ms.st[s].nextPart, start |-> startT, end |-> startT, indep |-> 0, tr |-> <<>>]]]]

-----------------------------------------------------------------------------
(* the segmenter *)

\* leading-track time of a time stamp of the leading track (already offset for fMP4)
\* (only leading-track stamps reach the rotation logic)

\* parameter detection shared by all video codecs
DetectParams(cfg, ms, t, u) ==
  IF cfg.tracks[t].k = "v" /\ u.ps # 0 /\ u.ps # ms.gen
  THEN [ms EXCEPT !.pendChg = TRUE, !.gen = u.ps]
  ELSE ms

\* fmp4AdjustPartDuration. In trace mode the values the real code computed during this Write are queued in
\* ms.adjq (hook seg.adjusted) and consumed here; otherwise the duration is computed exactly.
AdjustPart(cfg, ms, dur) ==
  IF ~IsVar(cfg, "ll") \/ ms.frozen \/ dur = 0 \/ dur \in ms.durs THEN ms
  ELSE LET ds == ms.durs \cup {dur}
       IN IF ms.adjq # <<>>
          THEN [ms EXCEPT !.durs = ds, !.adj = Head(ms.adjq), !.adjq = Tail(ms.adjq)]
          ELSE [ms EXCEPT !.durs = ds, !.adj = FindCompat(cfg, cfg.partMin, ds)]

\* muxerPart.writeSample
WriteSample(cfg, ms, t, smp) ==
  LET s  == StreamOfTrack(cfg, t)
      st == ms.st[s]
  IN IF st.open.size + smp.size > cfg.maxSize THEN [ms EXCEPT !.err = TRUE]
     ELSE [ms EXCEPT !.st[s].open.size = st.open.size + smp.size,
                     !.st[s].opart.indep = IF (t = cfg.lead \/ Len(StreamTracks(cfg, s)) = 1) /\ smp.ra = 1
                                           THEN 1 ELSE st.opart.indep,
                     !.tk[t].samples = Append(ms.tk[t].samples, smp)]

\* fmp4WriteSample for one unit u of track t; ra / chg describe u itself
FMP4Write(cfg, ms, t, u, chg) ==
  LET ct == u.dts + Off(cfg, t)                         \* container time
  IN IF ct < 0 THEN ms                                   \* rejected silently
     ELSE
     LET smp  == ms.tk[t].held
         new  == [id |-> u.id, dts |-> ct, ra |-> u.ra, size |-> u.size, ntp |-> u.ntp, dur |-> 0]
         ms1  == [ms EXCEPT !.tk[t].held = new]
     IN IF smp.id = 0 THEN ms1
        ELSE
        LET dur  == ct - smp.dts
            smp2 == [smp EXCEPT !.dur = dur]
            s    == StreamOfTrack(cfg, t)
            lead == t = cfg.lead
            ms2  == IF lead /\ ms1.st[s].open.id < 0 THEN CreateFirstAll(cfg, ms1, smp.dts, smp.ntp) ELSE ms1
        IN IF ~lead /\ ms2.st[s].open.id < 0 THEN ms2            \* wait for the leading track: sample dropped
           ELSE
           LET ms3 == IF lead THEN AdjustPart(cfg, ms2, dur) ELSE ms2
               ms4 == WriteSample(cfg, ms3, t, smp2)
           IN IF ms4.err \/ ~lead THEN ms4
              ELSE LET st == ms4.st[s] IN
                   IF u.ra = 1 /\ (chg \/ (IF Weak(cfg, "gtSegMin") THEN ct - st.open.start > cfg.segMin
                                                                         ELSE ct - st.open.start >= cfg.segMin))
                   THEN LET m5 == RotateSegmentsAll(cfg, ms4, ct, u.ntp, chg)
                        IN IF chg THEN [m5 EXCEPT !.frozen = FALSE, !.durs = {}] ELSE [m5 EXCEPT !.frozen = TRUE]
                   ELSE IF IsVar(cfg, "ll") /\ ct - st.opart.start >= ms4.adj
                   THEN RotatePartsAll(cfg, ms4, ct)
                   ELSE ms4

\* one unit of a video track (all video codecs share the shape: detect, consume at RA, gate, write)
VideoUnit(cfg, ms, t, u) ==
  LET m1  == DetectParams(cfg, ms, t, u)
      chg == u.ra = 1 /\ m1.pendChg
      m2  == IF chg THEN [m1 EXCEPT !.pendChg = FALSE] ELSE m1
  IN IF ~m2.tk[t].ra1 /\ u.ra = 0 /\ ~Weak(cfg, "noGate") THEN m2
     ELSE LET m3 == [m2 EXCEPT !.tk[t].ra1 = TRUE] IN
          IF IsVar(cfg, "mpegts")
          THEN LET st == m3.st[1]
                   m4 == IF st.open.id < 0 THEN CreateFirstAll(cfg, m3, u.dts, u.ntp)
                         ELSE IF u.ra = 1 /\ (u.dts - st.open.start >= cfg.segMin \/ chg)
                         THEN RotateSegmentsAll(cfg, m3, u.dts, u.ntp, FALSE)
                         ELSE m3
                   o  == m4.st[1].open
               IN IF o.size + u.size > cfg.maxSize THEN [m4 EXCEPT !.err = TRUE]
                  ELSE [m4 EXCEPT !.st[1].open.size = o.size + u.size,
                                  !.st[1].open.end = u.dts,
                                  !.st[1].open.units = Append(o.units, [t |-> t, id |-> u.id, dts |-> u.dts, ra |-> u.ra, wd |-> u.dts, wi |-> 0])]
          ELSE FMP4Write(cfg, m3, t, u, chg)

\* MPEG-TS: one WriteMPEG4Audio call (all access units of the call share the decision and the size check)
TSAudioWrite(cfg, ms, t, us) ==
  LET st   == ms.st[1]
      lead == t = cfg.lead
      u1   == us[1]
      \* the audio clock is converted to the leading time base only when audio leads (then they coincide)
      m1   == IF lead
              THEN IF st.open.id < 0 THEN CreateFirstAll(cfg, ms, u1.dts, u1.ntp)
                   ELSE IF st.open.cnt >= MinAU(cfg) /\ u1.dts - st.open.start >= cfg.segMin
                   THEN RotateSegmentsAll(cfg, ms, u1.dts, u1.ntp, FALSE)
                   ELSE ms
              ELSE ms
      o    == m1.st[1].open
      total == SumSeq([i \in 1..Len(us) |-> us[i].size])
  IN IF o.id < 0 THEN m1                                   \* wait for the video track
     ELSE IF o.size + total > cfg.maxSize THEN [m1 EXCEPT !.err = TRUE]
     ELSE [m1 EXCEPT !.st[1].open.size = o.size + total,
                     !.st[1].open.cnt = IF lead THEN o.cnt + 1 ELSE o.cnt,
                     !.st[1].open.end = IF lead THEN u1.dts ELSE o.end,
                     !.st[1].open.units = o.units \o [i \in 1..Len(us) |-> [t |-> t, id |-> us[i].id, dts |-> us[i].dts, ra |-> 1,
                                                                      wd |-> u1.dts, wi |-> i - 1]]]

RECURSIVE FMP4Units(_, _, _, _)
FMP4Units(cfg, ms, t, us) ==
  IF us = <<>> \/ ms.err THEN ms
  ELSE FMP4Units(cfg, FMP4Write(cfg, ms, t, Head(us), FALSE), t, Tail(us))

\* one Write call; w.adj (optional): adjusted part durations reported by the real code during this call
MWrite(cfg, ms0, w) ==
  LET t  == w.t
      ms == [ms0 EXCEPT !.adjq = IF "adj" \in DOMAIN w THEN w.adj ELSE <<>>]
  IN IF cfg.tracks[t].k = "v" THEN VideoUnit(cfg, ms, t, w.u[1])
     ELSE IF IsVar(cfg, "mpegts") THEN TSAudioWrite(cfg, ms, t, w.u)
     ELSE FMP4Units(cfg, ms, t, w.u)

-----------------------------------------------------------------------------
(* what a client observes: MRender *)

HasContentS(cfg, st) == IF IsVar(cfg, "fmp4") THEN Len(st.win) >= 2 ELSE Len(st.win) >= 1

RenderPart(p) == [id |-> p.id, dur |-> PartDur(p), ind |-> p.indep]

RenderPL(cfg, st) ==
  IF ~HasContentS(cfg, st) THEN [ok |-> 0]
  ELSE
  LET n == Len(st.win)
      ent == [i \in 1..n |->
                LET g == st.win[i] IN
                IF g.gap = 1 THEN [id |-> -1, gap |-> 1, dur |-> g.dur, ntp |-> -1, parts |-> <<>>]
                ELSE [id |-> g.id, gap |-> 0, dur |-> SegDur(g),
                      ntp |-> IF IsVar(cfg, "mpegts") \/ n - i < 2 THEN g.ntp ELSE -1,
                      parts |-> IF IsVar(cfg, "ll") /\ n - i < 2
                                THEN [j \in 1..Len(g.parts) |-> RenderPart(g.parts[j])] ELSE <<>>]]
  IN [ ok |-> 1, td |-> st.td, msn |-> st.del,
       pt |-> IF IsVar(cfg, "ll") THEN st.pt ELSE 0,
       hb |-> IF IsVar(cfg, "ll") THEN 250 * st.pt ELSE -1,
       su |-> IF IsVar(cfg, "ll") THEN 6000 * st.td ELSE -1,
       cbr |-> IF IsVar(cfg, "ll") THEN 1 ELSE 0,
       map |-> IF IsVar(cfg, "mpegts") THEN 0 ELSE 1,
       ent |-> ent,
       open |-> IF IsVar(cfg, "ll") THEN [j \in 1..Len(st.open.parts) |-> RenderPart(st.open.parts[j])] ELSE <<>>,
       hint |-> IF IsVar(cfg, "ll") THEN st.nextPart ELSE -1,
       qok |-> 1, ctok |-> 1 ]

\* units of a fragment as the container shows them
RenderUnitsFMP4(us) ==
  [i \in 1..Len(us) |-> [id |-> us[i].id, same |-> 1, dts |-> us[i].dts, dur |-> us[i].dur, off |-> 0, sync |-> us[i].ra]]

RenderFragFMP4(p) ==
  [seq |-> p.id, tr |-> [k \in 1..Len(p.tr) |->
       [t |-> p.tr[k].t, base |-> p.tr[k].u[1].dts, u |-> RenderUnitsFMP4(p.tr[k].u)]]]

TSTrackUnits(cfg, g, t) ==
  LET ix == SelectSeq(g.units, LAMBDA x : x.t = t)
  \* the access units of one Write share one PES time stamp; a demuxer spaces them by the unit duration in 90 kHz
  IN [i \in 1..Len(ix) |-> [id |-> ix[i].id, same |-> 1,
                            dts |-> ContainerDts(cfg, t, ix[i].wd) + (ix[i].wi * cfg.tracks[t].sd * cfg.tracks[t].tsnum) \div cfg.tracks[t].tsden,
                            dur |-> -1, off |-> 0, sync |-> -1]]

RenderFragTS(cfg, g) ==
  [seq |-> -1, pat |-> 1,
   tr |-> CatSeq([t \in 1..NT(cfg) |->
            IF TSTrackUnits(cfg, g, t) = <<>> THEN <<>> ELSE <<[t |-> t, base |-> -1, u |-> TSTrackUnits(cfg, g, t)]>>])]

\* fragments listed now and not rendered before, in listing order (per stream: for each segment its parts, then
\* the segment; then the parts of the open segment)
StreamEmits(cfg, st, s) ==
  IF ~HasContentS(cfg, st) THEN <<>>
  ELSE
  LET n == Len(st.win)
      perSeg == [i \in 1..n |->
        LET g == st.win[i] IN
        IF g.gap = 1 THEN <<>>
        ELSE IF IsVar(cfg, "ll")
        THEN IF n - i < 2
             THEN CatSeq([j \in 1..Len(g.parts) |->
                    IF <<"part", g.parts[j].id>> \in st.seen THEN <<>>
                    ELSE <<[s |-> s, kind |-> "part", id |-> g.parts[j].id, seg |-> g.id, st |-> 200, derr |-> 0,
                            frags |-> <<RenderFragFMP4(g.parts[j])>>]>>])
             ELSE <<>>
        ELSE IF <<"seg", g.id>> \in st.seen THEN <<>>
        ELSE <<[s |-> s, kind |-> "seg", id |-> g.id, seg |-> g.id, st |-> 200, derr |-> 0,
                frags |-> IF IsVar(cfg, "mpegts") THEN <<RenderFragTS(cfg, g)>> ELSE <<RenderFragFMP4(g.lastPart)>>]>>]
      openParts == IF IsVar(cfg, "ll")
        THEN CatSeq([j \in 1..Len(st.open.parts) |->
               IF <<"part", st.open.parts[j].id>> \in st.seen THEN <<>>
               ELSE <<[s |-> s, kind |-> "part", id |-> st.open.parts[j].id, seg |-> st.open.id, st |-> 200, derr |-> 0,
                       frags |-> <<RenderFragFMP4(st.open.parts[j])>>]>>])
        ELSE <<>>
  IN CatSeq(perSeg) \o openParts

\* the init segment: served once the playlist is (EXT-X-MAP), declares the stream's tracks; its parameters are
\* those captured when it was (re)generated
RenderInit(cfg, st, s) ==
  IF IsVar(cfg, "mpegts") \/ ~HasContentS(cfg, st) THEN [ok |-> 0]
  ELSE [ok |-> 1, ct |-> 1,
        tracks |-> [i \in 1..Len(StreamTracks(cfg, s)) |->
           LET t == StreamTracks(cfg, s)[i] IN
           [t |-> t, scale |-> cfg.tracks[t].rate, gen |-> IF cfg.tracks[t].k = "v" THEN st.initGen ELSE 1]]]

MRender(cfg, ms) ==
  [ pl   |-> [s \in 1..NS(cfg) |-> RenderPL(cfg, ms.st[s])],
    emit |-> CatSeq([s \in 1..NS(cfg) |-> StreamEmits(cfg, ms.st[s], s)]),
    init |-> [s \in 1..NS(cfg) |-> RenderInit(cfg, ms.st[s], s)] ]

\* after rendering, the listed fragments count as seen
MarkSeen(cfg, ms) ==
  [ms EXCEPT !.st = [s \in 1..NS(cfg) |->
     LET st == ms.st[s]
         es == StreamEmits(cfg, st, s)
     IN [st EXCEPT !.seen = st.seen \cup {<<es[i].kind, es[i].id>> : i \in 1..Len(es)}]]]

=============================================================================
