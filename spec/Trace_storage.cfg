CONSTANTS
  MaxParts = 1000
  MaxLen = 1000000
  MaxOps = 0
  MaxReaders = 1000
  TruncateAtFinalize = TRUE
  Emit = FALSE
  WriteSet <- MCWriteSet
  SeekSet <- MCSeekSet
  ReadSizes <- MCReadSizes
INIT TraceInit
NEXT TraceNext
INVARIANTS C17_RamMatches C17_DiskMatches C17_BackendsAgree
CHECK_DEADLOCK FALSE
