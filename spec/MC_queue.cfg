CONSTANTS
  MaxPush = 4
  N = 1
  WaitCaptures = TRUE
  PullCaptures = TRUE
  Alternate = FALSE
  MaxCmds = 12
  Emit = FALSE
  Record = FALSE
SPECIFICATION Spec
INVARIANTS FIFO NoLostWakeC NoLostWakeP CancelWakes LookAhead
PROPERTIES PLeaves CLeaves
CHECK_DEADLOCK FALSE
