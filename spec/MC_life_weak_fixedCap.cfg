SPECIFICATION Spec
CONSTANTS
  NSeg = 1
  NPart = 3
  TokenCap = 1
  Fmp4 = TRUE
  Variant = "ok"
  MaxReq = 3
INVARIANTS AtMostOneValue NoGoroutineLeft NoCallbackAfterwards NeverNil ErrorSurfaced
PROPERTIES Terminates
CHECK_DEADLOCK FALSE
