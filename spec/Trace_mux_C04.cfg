CONSTANT Want = {"c04"}
INIT TraceInit
NEXT TraceNext
INVARIANTS C04_Evolution
CHECK_DEADLOCK FALSE
