CONSTANT Want = {"c04"}
CONSTANT Conform = FALSE
INIT TraceInit
NEXT TraceNext
INVARIANTS C04_Evolution
CHECK_DEADLOCK FALSE
