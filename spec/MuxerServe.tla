------------------------------ MODULE MuxerServe ------------------------------
(***************************************************************************)
(* One writer, HTTP handlers and Close on a Low-Latency muxer stream:      *)
(* the mutex / condition-variable protocol of muxer.go and muxer_stream.go *)
(* (C06 blocking reload and preload hints, C07 Close, C08 atomic views).   *)
(*                                                                         *)
(* Structure follows the code's critical sections:                         *)
(*   writer  : WRotate (Lock; rotatePartsInner | rotateSegmentsInner;      *)
(*             Unlock) then WBroadcast  - the harness gates the real       *)
(*             writer between the two (hook rotate.beforeBroadcast)        *)
(*   closer  : CMark (Lock; closed; Unlock), CBroadcast, then one CStream  *)
(*             per stream (hooks close.afterBroadcast, close.stream)       *)
(*   handler : HEval = one evaluation of the request under the mutex:      *)
(*             respond, or park on the condition variable                  *)
(* Window content is abstracted to ids and part counts.                    *)
(*                                                                         *)
(* Flags select the code's behaviour vs. the weakened variants kept as     *)
(* attack-schedule generators (DESIGN 5.2):                                *)
(*   StreamClosedUnderLock  - Close marks the streams closed inside CMark  *)
(*   HintUnlocksOnClosed    - the hint handler releases the mutex on its   *)
(*                            closed path                                  *)
(*   RolloverChecksOpen     - hasPart looks at the open segment after      *)
(*                            rolling (M, P past the end) over to (M+1, 0) *)
(*   GapIsContent           - an _HLS_msn naming a listed gap entry is     *)
(*                            answered                                     *)
(***************************************************************************)
EXTENDS Integers, Sequences, FiniteSets, TLC, Json

CONSTANTS SegCount, NumGaps, MaxSegs, MaxPartsPerSeg,
          Handlers,          \* set of handler ids
          Reqs,              \* set of request records a handler may issue
          StreamClosedUnderLock, HintUnlocksOnClosed, RolloverChecksOpen, GapIsContent,
          MaxCmds, Record, Emit,
          CloseAfter         \* generation runs: Close only once this many parts were published (0 = any time)

VARIABLES win,        \* sequence of [id, gap, np] (np = number of parts), oldest first
          del,        \* segmentDeleteCount = MEDIA-SEQUENCE
          nextSeg, openParts, nextPart,
          started,    \* the first segment exists (createFirstSegment happened)
          mclosed, sclosed, filesGone,
          mutex,      \* "free" | "leaked" | <<"h", id>> ... only "free"/"leaked" persist between steps
          hs,         \* handler state: [pc, req, code, sawM, sawP, evals]
          wpc, kpc,   \* writer / closer program counters
          hist

vars == <<win, del, nextSeg, openParts, nextPart, started, mclosed, sclosed, filesGone, mutex, hs, wpc, kpc, hist>>

NoReq == [kind |-> "none", M |-> 0, P |-> 0]
HIdle == [pc |-> "idle", req |-> NoReq, code |-> 0, evals |-> 0, avail |-> TRUE]

Init ==
  /\ win = <<>> /\ del = 0 /\ nextSeg = NumGaps /\ openParts = 0 /\ nextPart = 0 /\ started = FALSE
  /\ mclosed = FALSE /\ sclosed = FALSE /\ filesGone = FALSE
  /\ mutex = "free"
  /\ hs = [h \in Handlers |-> HIdle]
  /\ wpc = "idle" /\ kpc = "idle"
  /\ hist = <<>>

-----------------------------------------------------------------------------
(* published state: what hasContent / hasPart / the range check look at *)

HasContent == Len(win) >= 1

EntryIds == {win[i].id : i \in {j \in 1..Len(win) : win[j].gap = 0}}
EntryOf(id) == win[CHOOSE i \in 1..Len(win) : win[i].gap = 0 /\ win[i].id = id]
\* media sequence number of the i-th entry
MsnOf(i) == del + i - 1
GapMsns == {MsnOf(i) : i \in {j \in 1..Len(win) : win[j].gap = 1}}

\* hasPart, transcribed: open segment consulted only when M = nextSeg at entry; roll-over inside the loop
HasPartCode(M, P) ==
  IF M = nextSeg THEN started /\ P < openParts
  ELSE IF M \in EntryIds
       THEN IF P >= EntryOf(M).np
            THEN \* rolled over to (M + 1, 0): the loop continues over the completed segments only
                 \/ (M + 1) \in EntryIds
                 \/ (RolloverChecksOpen /\ M + 1 = nextSeg /\ started /\ openParts >= 1)
            ELSE TRUE
       ELSE GapIsContent /\ M \in GapMsns

\* the range check of handleMediaPlaylist (unsigned arithmetic: with an empty window only nextSeg + 1 passes)
InRangeCode(M) ==
  IF Len(win) = 0 THEN M = nextSeg + 1
  ELSE ~(M > nextSeg + 1 \/ M < nextSeg - (Len(win) - 1))

\* C06 statement: (M, P) with P past the end of complete segment M means (M + 1, 0)
Roll(M, P) == IF M \in EntryIds /\ P >= EntryOf(M).np THEN <<M + 1, 0>> ELSE <<M, P>>
Available(M, P) ==
  LET r == Roll(M, P) IN
  \/ r[1] \in EntryIds
  \/ (r[1] = nextSeg /\ started /\ r[2] < openParts)
  \/ r[1] \in GapMsns            \* a listed gap entry is in the playlist

-----------------------------------------------------------------------------
(* writer *)

PartRotateState ==
  /\ openParts' = openParts + 1 /\ nextPart' = nextPart + 1
  /\ UNCHANGED <<win, del, nextSeg>>

SegRotateState ==
  LET seg  == [id |-> nextSeg, gap |-> 0, np |-> openParts + 1]
      gaps == IF Len(win) = 0 THEN [i \in 1..NumGaps |-> [id |-> -1, gap |-> 1, np |-> 0]] ELSE <<>>
      w1   == win \o gaps \o <<seg>>
      over == Len(w1) > SegCount
  IN /\ win' = IF over THEN Tail(w1) ELSE w1
     /\ del' = IF over THEN del + 1 ELSE del
     /\ nextSeg' = nextSeg + 1 /\ openParts' = 0 /\ nextPart' = nextPart + 1

\* the writer's first two writes create the first segment and publish its first part (one rotateParts)
WStart ==
  /\ wpc = "idle" /\ ~started /\ kpc = "idle" /\ mutex = "free"
  /\ started' = TRUE /\ PartRotateState /\ wpc' = "bcast"
  /\ UNCHANGED <<mclosed, sclosed, filesGone, mutex, hs, kpc>>

WRotate(kind) ==
  /\ wpc = "idle" /\ started /\ kpc = "idle" /\ mutex = "free"
  /\ nextSeg - NumGaps < MaxSegs
  /\ IF kind = "part" THEN openParts + 1 < MaxPartsPerSeg /\ PartRotateState ELSE SegRotateState
  /\ wpc' = "bcast"
  /\ UNCHANGED <<started, mclosed, sclosed, filesGone, mutex, hs, kpc>>

Broadcast == hs' = [h \in Handlers |-> IF hs[h].pc = "parked" THEN [hs[h] EXCEPT !.pc = "woken"] ELSE hs[h]]

WBroadcast ==
  /\ wpc = "bcast" /\ wpc' = "idle" /\ Broadcast
  /\ UNCHANGED <<win, del, nextSeg, openParts, nextPart, started, mclosed, sclosed, filesGone, mutex, kpc>>

-----------------------------------------------------------------------------
(* Close (after the writer's last write returned) *)

CMark ==
  /\ kpc = "idle" /\ wpc = "idle" /\ mutex = "free" /\ nextPart >= CloseAfter
  /\ mclosed' = TRUE /\ sclosed' = (IF StreamClosedUnderLock THEN TRUE ELSE sclosed)
  /\ kpc' = "marked"
  /\ UNCHANGED <<win, del, nextSeg, openParts, nextPart, started, filesGone, mutex, hs, wpc>>

CBroadcast ==
  /\ kpc = "marked" /\ kpc' = "bcast" /\ Broadcast
  /\ UNCHANGED <<win, del, nextSeg, openParts, nextPart, started, mclosed, sclosed, filesGone, mutex, wpc>>

CStream ==      \* muxerStream.close: unlocked write of the stream's closed flag, storage released
  /\ kpc = "bcast" /\ kpc' = "done"
  /\ sclosed' = TRUE /\ filesGone' = TRUE
  /\ UNCHANGED <<win, del, nextSeg, openParts, nextPart, started, mclosed, mutex, hs, wpc>>

-----------------------------------------------------------------------------
(* handlers *)

\* `avail` remembers whether the requested part was available in the state the answer was computed from
Respond(h, code) == hs' = [hs EXCEPT ![h].pc = "done", ![h].code = code, ![h].evals = hs[h].evals + 1,
                                     ![h].avail = (hs[h].req.kind # "block" \/ Available(hs[h].req.M, hs[h].req.P))]
Park(h) == hs' = [hs EXCEPT ![h].pc = "parked", ![h].evals = hs[h].evals + 1]

\* one evaluation of request r by handler h under the mutex
Eval(h) ==
  LET r == hs[h].req IN
  CASE r.kind = "plain" ->
         IF sclosed THEN Respond(h, 500) /\ mutex' = "free"
         ELSE IF HasContent THEN Respond(h, 200) /\ mutex' = "free"
         ELSE Park(h) /\ mutex' = "free"
    [] r.kind = "block" ->
         IF sclosed THEN Respond(h, 500) /\ mutex' = "free"
         ELSE IF ~InRangeCode(r.M) THEN Respond(h, 400) /\ mutex' = "free"
         ELSE IF HasContent /\ HasPartCode(r.M, r.P) THEN Respond(h, 200) /\ mutex' = "free"
         ELSE Park(h) /\ mutex' = "free"
    [] r.kind = "hint" ->          \* GET of part r.P while it is the preload hint
         IF sclosed THEN Respond(h, 500) /\ mutex' = (IF HintUnlocksOnClosed THEN "free" ELSE "leaked")
         ELSE IF nextPart > r.P THEN Respond(h, 200) /\ mutex' = "free"
         ELSE Park(h) /\ mutex' = "free"
    [] r.kind = "mv" ->
         IF mclosed THEN Respond(h, 500) /\ mutex' = "free"
         ELSE IF HasContent THEN Respond(h, 200) /\ mutex' = "free"
         ELSE Park(h) /\ mutex' = "free"

\* a request arrives; M / P of blocking requests are taken relative to the published state by the harness
HStart(h, r) ==
  /\ hs[h].pc \in {"idle", "done"}       \* a finished slot is reused
  /\ (r.kind = "hint" => (started /\ r.P = nextPart))     \* the preload hint names the next part
  /\ hs' = [hs EXCEPT ![h] = [pc |-> "start", req |-> r, code |-> 0, evals |-> 0, avail |-> TRUE]]
  /\ UNCHANGED <<win, del, nextSeg, openParts, nextPart, started, mclosed, sclosed, filesGone, mutex, wpc, kpc>>

HEval(h) ==
  /\ hs[h].pc \in {"start", "woken"} /\ mutex = "free"
  /\ Eval(h)
  /\ UNCHANGED <<win, del, nextSeg, openParts, nextPart, started, mclosed, sclosed, filesGone, wpc, kpc, hist>>

HForget(h) ==     \* the harness reuses a finished handler slot
  /\ hs[h].pc = "done"
  /\ hs' = [hs EXCEPT ![h] = HIdle]
  /\ UNCHANGED <<win, del, nextSeg, openParts, nextPart, started, mclosed, sclosed, filesGone, mutex, wpc, kpc>>

-----------------------------------------------------------------------------
(* scheduler commands (what the harness does) and internal steps (what goroutines do by themselves) *)

Internal == \E h \in Handlers : HEval(h)
Quiescent == \A h \in Handlers : ~(hs[h].pc \in {"start", "woken"} /\ mutex = "free")

Cmd(c) ==
  CASE c.c = "wstart" -> WStart
    [] c.c = "wpart"  -> WRotate("part")
    [] c.c = "wseg"   -> WRotate("seg")
    [] c.c = "relW"   -> WBroadcast
    [] c.c = "close"  -> CMark
    [] c.c = "relK1"  -> CBroadcast
    [] c.c = "relK2"  -> CStream
    [] c.c = "req"    -> IF "h" \in DOMAIN c THEN HStart(c.h, c.r) ELSE FALSE

Cmds ==
  {[c |-> x] : x \in {"wstart", "wpart", "wseg", "relW", "close", "relK1", "relK2"}}
    \cup {[c |-> "req", h |-> h, r |-> r] : h \in Handlers, r \in Reqs}

\* relative requests: the harness computes M / P from the playlist it sees; in the model the request set lists
\* offsets from nextSeg / openParts
Abs(r) == IF r.kind = "block" THEN [r EXCEPT !.M = nextSeg + r.M, !.P = IF r.P < 0 THEN 0 ELSE r.P]
          ELSE IF r.kind = "hint" THEN [r EXCEPT !.P = nextPart] ELSE r

Next ==
  \/ /\ Quiescent /\ (Record => Len(hist) < MaxCmds)
     /\ \E c \in Cmds :
          /\ IF c.c = "req" THEN HStart(c.h, Abs(c.r)) ELSE Cmd(c)
          /\ hist' = IF Record THEN Append(hist, c) ELSE hist
  \/ Internal

Spec == Init /\ [][Next]_vars /\ \A h \in Handlers : WF_vars(HEval(h))

-----------------------------------------------------------------------------
(* C06 *)

\* a parked blocking request is never satisfiable at a quiescent point once the writer's call has returned
\* ("then without needing further input"; between the rotation and its Broadcast the wake-up is still on its way)
AnsweredWhenAvailable ==
  (Quiescent /\ wpc = "idle") => \A h \in Handlers :
     (hs[h].pc = "parked" /\ hs[h].req.kind = "block" /\ ~sclosed /\ mutex = "free")
        => ~(HasContent /\ Available(hs[h].req.M, hs[h].req.P))

HintAnswered ==
  (Quiescent /\ wpc = "idle") => \A h \in Handlers :
     (hs[h].pc = "parked" /\ hs[h].req.kind = "hint" /\ ~sclosed /\ mutex = "free") => ~(nextPart > hs[h].req.P)

\* a 200 is never early: the requested part is in the playlist of that instant
NeverEarly ==
  \A h \in Handlers :
     (hs[h].pc = "done" /\ hs[h].code = 200 /\ hs[h].req.kind = "block") => hs[h].avail

\* requests for the open segment or the one after it are never rejected; a 400 comes from the first evaluation
NeverRejectedNear ==
  \A h \in Handlers :
     (hs[h].pc = "done" /\ hs[h].code = 400) =>
        /\ hs[h].evals = 1 \/ ~(hs[h].req.M \in {nextSeg, nextSeg + 1})

Immediate400 ==
  \A h \in Handlers : (hs[h].pc = "done" /\ hs[h].code = 400) => hs[h].evals = 1

-----------------------------------------------------------------------------
(* C07 *)

CloseDone == kpc = "done"

\* after Close returned and everybody ran as far as they can: nobody is left inside the muxer, no lock is held,
\* storage is released
AfterCloseAllDone ==
  (CloseDone /\ Quiescent) =>
     /\ \A h \in Handlers : hs[h].pc \in {"idle", "done"}
     /\ \A h \in Handlers : (hs[h].pc = "done" /\ hs[h].evals > 0 /\ hs[h].code = 200) => TRUE
     /\ mutex = "free"
     /\ filesGone

\* every request that was pending when Close started ends with a non-200 status: a request evaluated after
\* CMark never gets 200 from a waiting state
PendingGetNon200 ==
  \A h \in Handlers : (CloseDone /\ hs[h].pc = "done" /\ hs[h].evals >= 2) => hs[h].code # 200 \/ ~mclosed

\* liveness: whatever is pending eventually finishes once Close has run
CloseUnblocks == CloseDone ~> \A h \in Handlers : hs[h].pc \in {"idle", "done"}
BlockedEventuallyAnswered ==
  \A h \in Handlers : (hs[h].pc = "parked" /\ hs[h].req.kind = "block" /\ HasContent /\ Available(hs[h].req.M, hs[h].req.P) /\ ~sclosed)
                         ~> (hs[h].pc = "done" \/ sclosed)

-----------------------------------------------------------------------------
Leaf == (Emit /\ Quiescent /\ Len(hist) = MaxCmds) => PrintT(<<"HIST", ToJson(hist)>>)
AttackC07 == AfterCloseAllDone \/ (PrintT(<<"ATTACK", ToJson(hist)>>) /\ FALSE)
AttackC06 == (AnsweredWhenAvailable /\ HintAnswered) \/ (PrintT(<<"ATTACK", ToJson(hist)>>) /\ FALSE)
=============================================================================
