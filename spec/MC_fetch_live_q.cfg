SPECIFICATION FSpec
CONSTANTS
  InitialDistance = 3
  Variant = "ok"
  MaxDistance = 5
  MaxMS = 7
  MaxN = 7
  MaxAdvance = 3
  MaxPolls = 4
  Vod = FALSE
  Fmp4 = FALSE
  LL = FALSE
  CanSkip = FALSE
INVARIANTS Consecutive StartsRight OnlyListed NotTooLate EOSAfterLast ErrorsJustified ReloadBetween
CHECK_DEADLOCK FALSE
