CONSTANTS
  MaxPush = 3
  N = 1
  WaitCaptures = TRUE
  PullCaptures = TRUE
  Alternate = FALSE
  MaxCmds = 8
  Emit = TRUE
  Record = TRUE
INIT Init
NEXT Next
CONSTRAINT Leaf
CHECK_DEADLOCK FALSE
