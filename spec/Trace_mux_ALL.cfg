INIT TraceInit
NEXT TraceNext
INVARIANTS C01_UnitsPreserved C02_Boundaries C03_Durations C04_Evolution C05_URIs C18_Retention
CHECK_DEADLOCK FALSE
