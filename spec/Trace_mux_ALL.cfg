CONSTANT Want = {"c01","c02","c03","c04","c05","c18","c19","c16"}
CONSTANT Conform = FALSE
INIT TraceInit
NEXT TraceNext
INVARIANTS C01_UnitsPreserved C02_Boundaries C03_Durations C04_Evolution C05_URIs C18_Retention C19_RegularParts C16_Multivariant
CHECK_DEADLOCK FALSE
