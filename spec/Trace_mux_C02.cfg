CONSTANT Want = {"c02"}
INIT TraceInit
NEXT TraceNext
INVARIANTS C02_Boundaries
CHECK_DEADLOCK FALSE
