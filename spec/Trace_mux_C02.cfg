CONSTANT Want = {"c02"}
CONSTANT Conform = FALSE
INIT TraceInit
NEXT TraceNext
INVARIANTS C02_Boundaries
CHECK_DEADLOCK FALSE
