SPECIFICATION Spec
CONSTANTS
  NStreams = 2
  NSeg = 1
  Fmp4 = TRUE
  Variant = "startNoSelect"
  MaxReq = 7
  ClosePoints <- CP_tiny
  Faults <- F_tiny
INVARIANTS AtMostOneValue NoGoroutineLeft NoCallbackAfterwards NeverNil ErrorSurfaced RenditionAfterLeading
PROPERTIES Terminates
CHECK_DEADLOCK FALSE
