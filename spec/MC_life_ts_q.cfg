SPECIFICATION Spec
CONSTANTS
  NSeg = 2
  NPart = 1
  TokenCap = 0
  Fmp4 = FALSE
  Variant = "ok"
  MaxReq = 4
INVARIANTS AtMostOneValue NoGoroutineLeft NoCallbackAfterwards NeverNil ErrorSurfaced Emit
PROPERTIES Terminates
CHECK_DEADLOCK FALSE
