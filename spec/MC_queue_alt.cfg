CONSTANTS
  MaxPush = 5
  N = 1
  WaitCaptures = TRUE
  PullCaptures = TRUE
  Alternate = TRUE
  MaxCmds = 12
  Emit = FALSE
  Record = FALSE
SPECIFICATION Spec
INVARIANTS FIFO NoLostWakeC NoLostWakeP CancelWakes LookAhead
PROPERTIES PLeaves CLeaves
CHECK_DEADLOCK FALSE
