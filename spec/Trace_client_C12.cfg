SPECIFICATION TraceSpec
CONSTANTS
  InitialDistance = 3
  MaxDistance = 5
  Variant = "ok"
  Want = {"c12"}
  TolerateStaleAnchor = TRUE
INVARIANTS C12_Termination
POSTCONDITION Post
CHECK_DEADLOCK FALSE
