------------------------------- MODULE Storage -------------------------------
(***************************************************************************)
(* pkg/storage (C17).                                                      *)
(*                                                                         *)
(* Two layers in one module, stepped synchronously:                        *)
(*  - the ABSTRACT file: a sequence of parts, each a byte sequence with a  *)
(*    write position (the semantics both backends must show), and          *)
(*  - the DISK implementation shape: one sparse OS file, per part          *)
(*    (offset, size, RAM mirror or Nil), sizes fixed when the next part is *)
(*    allocated / at Finalize, RAM mirrors dropped at Finalize - as        *)
(*    file_disk.go / part_disk.go / double_writer.go do it.                *)
(* DiskRefines says that what the disk shape would return equals the       *)
(* abstract content.  The RAM backend is the abstract file itself.         *)
(*                                                                         *)
(* Discipline assumed (both muxer call sites obey it): one Writer() per    *)
(* part; only the most recently allocated part is written; nothing is      *)
(* written or allocated after Finalize; a part is not written while a      *)
(* reader is open on it.                                                   *)
(***************************************************************************)
EXTENDS Integers, Sequences, TLC, Json

CONSTANTS MaxParts,     \* bound on NewPart
          MaxLen,       \* bound on a part's length
          MaxOps,       \* bound on history length
          WriteSet,     \* set of byte sequences a Write may carry
          SeekSet,      \* set of <<offset, whence>>, whence 0 = start, 1 = current
          ReadSizes,    \* buffer sizes for Read
          MaxReaders,
          TruncateAtFinalize,  \* TRUE: Finalize extends the OS file to the recorded size (the repaired code)
          Emit          \* TRUE: print leaf histories (generation runs)

VARIABLES parts, fin, rem, readers, res, hist,
          file, dparts      \* disk implementation shape

avars == <<parts, fin, rem, readers>>
dvars == <<file, dparts>>
vars  == <<parts, fin, rem, readers, res, hist, file, dparts>>

NoRes == [o |-> "init"]

Min(a, b) == IF a < b THEN a ELSE b
Max(a, b) == IF a > b THEN a ELSE b
Zeros(n) == [i \in 1..n |-> 0]

\* overwrite / append bs into buf at position pos (0-based); buf is first zero-extended to pos
Overlay(buf, pos, bs) ==
  LET b0 == IF pos > Len(buf) THEN buf \o Zeros(pos - Len(buf)) ELSE buf
      n  == Max(Len(b0), pos + Len(bs))
  IN [i \in 1..n |-> IF i > pos /\ i <= pos + Len(bs) THEN bs[i - pos] ELSE b0[i]]

RECURSIVE ConcatBufs(_)
ConcatBufs(ps) == IF ps = <<>> THEN <<>> ELSE Head(ps).buf \o ConcatBufs(Tail(ps))

FileContent == ConcatBufs(parts)

RECURSIVE SumLen(_)
SumLen(ps) == IF ps = <<>> THEN 0 ELSE Len(Head(ps).buf) + SumLen(Tail(ps))

-----------------------------------------------------------------------------
(* disk shape helpers *)

\* bytes [off, off+n) of the sparse OS file, short if the file ends earlier
FileRange(f, off, n) == SubSeq(f, off + 1, Min(Len(f), off + n))

DiskPartRead(k) ==
  IF dparts[k].mem THEN dparts[k].mirror
  ELSE FileRange(file, dparts[k].offset, dparts[k].size)

DiskFileRead == file

DiskRefines ==
  /\ \A k \in 1..Len(parts) : DiskPartRead(k) = parts[k].buf
  /\ fin => DiskFileRead = FileContent

-----------------------------------------------------------------------------
Init ==
  /\ parts = <<>> /\ fin = FALSE /\ rem = FALSE /\ readers = <<>>
  /\ res = NoRes /\ hist = <<>>
  /\ file = <<>> /\ dparts = <<>>

Log(op) == hist' = Append(hist, op)

\* ---- NewPart -------------------------------------------------------------
NewPartA ==
  /\ ~fin /\ ~rem /\ Len(parts) < MaxParts
  /\ parts' = Append(parts, [buf |-> <<>>, pos |-> 0])
  /\ UNCHANGED <<fin, rem, readers>>
  \* disk: fix the size of the previous part, compute the offset
  /\ LET n   == Len(dparts)
         dp  == IF n = 0 THEN dparts
                ELSE [dparts EXCEPT ![n].size = Len(dparts[n].mirror)]
         off == IF n = 0 THEN 0 ELSE dp[n].offset + dp[n].size
     IN dparts' = Append(dp, [offset |-> off, size |-> 0, mem |-> TRUE, mirror |-> <<>>, mpos |-> 0, fpos |-> 0])
  /\ file' = file
  /\ res' = [o |-> "newpart"]

\* ---- Write on the last part ---------------------------------------------
WriteA(bs) ==
  /\ ~fin /\ ~rem /\ Len(parts) > 0
  /\ LET k == Len(parts) IN
     /\ \A i \in 1..Len(readers) : ~(readers[i].kind = "part" /\ readers[i].k = k)
     /\ parts[k].pos + Len(bs) <= MaxLen
     /\ parts' = [parts EXCEPT ![k].buf = Overlay(parts[k].buf, parts[k].pos, bs),
                               ![k].pos = parts[k].pos + Len(bs)]
     \* disk: OffsetWriter at base offset + fpos, RAM mirror at mpos
     /\ file' = Overlay(file, dparts[k].offset + dparts[k].fpos, bs)
     /\ dparts' = [dparts EXCEPT ![k].mirror = Overlay(dparts[k].mirror, dparts[k].mpos, bs),
                                 ![k].mpos = dparts[k].mpos + Len(bs),
                                 ![k].fpos = dparts[k].fpos + Len(bs)]
  /\ UNCHANGED <<fin, rem, readers>>
  /\ res' = [o |-> "write", n |-> Len(bs), err |-> 0]

\* ---- Seek on the last part ----------------------------------------------
SeekA(off, wh) ==
  /\ ~fin /\ ~rem /\ Len(parts) > 0
  /\ LET k  == Len(parts)
         np == IF wh = 0 THEN off ELSE parts[k].pos + off
     IN IF np < 0
        THEN /\ UNCHANGED <<avars, dvars>>
             /\ res' = [o |-> "seek", pos |-> 0, err |-> 1]
        ELSE /\ np <= MaxLen
             /\ \A i \in 1..Len(readers) : ~(readers[i].kind = "part" /\ readers[i].k = k)
             \* seekablebuffer zero-fills when seeking past the end
             /\ parts' = [parts EXCEPT ![k].pos = np,
                                       ![k].buf = IF np > Len(parts[k].buf)
                                                  THEN parts[k].buf \o Zeros(np - Len(parts[k].buf))
                                                  ELSE parts[k].buf]
             /\ UNCHANGED <<fin, rem, readers>>
             \* disk: the OffsetWriter only moves its cursor, the mirror zero-fills
             /\ dparts' = [dparts EXCEPT ![k].mpos = np, ![k].fpos = np,
                                         ![k].mirror = IF np > Len(dparts[k].mirror)
                                                       THEN dparts[k].mirror \o Zeros(np - Len(dparts[k].mirror))
                                                       ELSE dparts[k].mirror]
             /\ file' = file
             /\ res' = [o |-> "seek", pos |-> np, err |-> 0]

\* ---- Finalize ------------------------------------------------------------
FinalizeA ==
  /\ ~fin /\ ~rem
  /\ fin' = TRUE
  /\ UNCHANGED <<parts, rem, readers>>
  /\ LET n  == Len(dparts)
         dp == IF n = 0 THEN dparts ELSE [dparts EXCEPT ![n].size = Len(dparts[n].mirror)]
         total == IF n = 0 THEN 0 ELSE dp[n].offset + dp[n].size
     IN /\ dparts' = [i \in 1..n |-> [dp[i] EXCEPT !.mirror = <<>>, !.mem = FALSE]]
        /\ file' = IF TruncateAtFinalize /\ Len(file) < total
                   THEN file \o Zeros(total - Len(file)) ELSE file
  /\ res' = [o |-> "finalize", exists |-> 1]

\* ---- Size ---------------------------------------------------------------
SizeA ==
  /\ ~rem
  /\ UNCHANGED <<avars, dvars>>
  /\ res' = [o |-> "size", n |-> IF fin THEN SumLen(parts) ELSE 0]

\* ---- readers ------------------------------------------------------------
OpenPartA(k) ==
  /\ ~rem /\ k \in 1..Len(parts) /\ Len(readers) < MaxReaders
  /\ readers' = Append(readers, [kind |-> "part", k |-> k, off |-> 0, data |-> parts[k].buf])
  /\ UNCHANGED <<parts, fin, rem, dvars>>
  /\ res' = [o |-> "openpart", err |-> 0]

OpenFileA ==
  /\ ~rem
  /\ IF fin
     THEN /\ Len(readers) < MaxReaders
          /\ readers' = Append(readers, [kind |-> "file", k |-> 0, off |-> 0, data |-> FileContent])
          /\ res' = [o |-> "openfile", err |-> 0]
     ELSE /\ readers' = readers
          /\ res' = [o |-> "openfile", err |-> 1]
  /\ UNCHANGED <<parts, fin, rem, dvars>>

\* Read through io.ReadFull for c > 0, a single Read call for c = 0
ReadA(r, c) ==
  /\ r \in 1..Len(readers)
  /\ LET rd == readers[r]
         n  == Min(c, Len(rd.data) - rd.off)
     IN /\ readers' = [readers EXCEPT ![r].off = rd.off + n]
        /\ res' = [o |-> "read", bs |-> SubSeq(rd.data, rd.off + 1, rd.off + n),
                   eof |-> IF n < c THEN 1 ELSE 0]
  /\ UNCHANGED <<parts, fin, rem, dvars>>

\* ---- Remove -------------------------------------------------------------
RemoveA ==
  /\ ~rem /\ fin
  /\ rem' = TRUE
  /\ UNCHANGED <<parts, fin, readers, dvars>>
  /\ res' = [o |-> "remove", exists |-> 0]

-----------------------------------------------------------------------------
Step(op) ==
  CASE op.o = "newpart"  -> NewPartA
    [] op.o = "write"    -> WriteA(op.bs)
    [] op.o = "seek"     -> SeekA(op.off, op.wh)
    [] op.o = "finalize" -> FinalizeA
    [] op.o = "size"     -> SizeA
    [] op.o = "openpart" -> OpenPartA(op.k)
    [] op.o = "openfile" -> OpenFileA
    [] op.o = "read"     -> ReadA(op.r, op.c)
    [] op.o = "remove"   -> RemoveA

Ops ==
  {[o |-> "newpart"], [o |-> "finalize"], [o |-> "size"], [o |-> "openfile"], [o |-> "remove"]}
  \cup {[o |-> "write", bs |-> bs] : bs \in WriteSet}
  \cup {[o |-> "seek", off |-> s[1], wh |-> s[2]] : s \in SeekSet}
  \cup {[o |-> "openpart", k |-> k] : k \in 1..MaxParts}
  \cup {[o |-> "read", r |-> r, c |-> c] : r \in 1..MaxReaders, c \in ReadSizes}

Next ==
  /\ Len(hist) < MaxOps
  /\ \E op \in Ops : Step(op) /\ Log(op)

Spec == Init /\ [][Next]_vars

-----------------------------------------------------------------------------
(* C17 clauses, design level *)

TypeOK ==
  /\ fin \in BOOLEAN /\ rem \in BOOLEAN
  /\ \A k \in 1..Len(parts) : parts[k].pos >= 0 /\ Len(parts[k].buf) <= MaxLen

\* a read never returns bytes that are not at that position of the content fixed at open time,
\* and content fixed at open time equals the current content (nothing is written under an open reader)
ReadersSeeCurrent ==
  \A i \in 1..Len(readers) :
     readers[i].data = IF readers[i].kind = "part" THEN parts[readers[i].k].buf ELSE FileContent

SizeIsTotal == fin => SumLen(parts) = Len(FileContent)

\* generation runs: print each maximal history
Leaf == (Emit /\ (Len(hist) = MaxOps \/ (rem /\ readers = <<>>))) => PrintT(<<"HIST", ToJson(hist)>>)

\* weakened-variant runs: print the history that refutes the refinement (attack script)
DiskRefinesOrPrint == DiskRefines \/ (PrintT(<<"ATTACK", ToJson(hist)>>) /\ FALSE)

View == <<parts, fin, rem, readers, file, dparts, Len(hist)>>
=============================================================================
