-------------------------- MODULE MuxerServeTrace --------------------------
(***************************************************************************)
(* Trace validation for C06 / C07 / C08 (gated schedules).  Each "cmd"     *)
(* line is one scheduler command executed on the REAL muxer (writer step,  *)
(* Close step, new request) followed by what was observed once every       *)
(* goroutine was idle, gated, parked on the condition variable or blocked  *)
(* on the mutex (read from the Go runtime): per handler its status, code   *)
(* and the projection of the playlist it received; `pub`, what a fresh     *)
(* plain request sees at that point.                                       *)
(* The C0x_* predicates use the observations only.  The model of           *)
(* MuxerServe.tla is stepped next to it (silent HEval steps) for           *)
(* conformance.                                                            *)
(***************************************************************************)
EXTENDS MuxerServe

Trace == ndJsonDeserialize("trace.ndjson")

VARIABLES l, mode,
          oStage,      \* Close: 0 not called, 1 marked, 2 broadcast, 3 returned
          oPend,       \* handlers that were parked when Close was called
          oIssued      \* handler -> line at which its current request was issued

ovars == <<oStage, oPend, oIssued>>
tvars == <<vars, l, mode, ovars>>

Max(a, b) == IF a > b THEN a ELSE b

TraceInit ==
  /\ Init /\ l = 1 /\ mode = "ok" /\ TLCSet(1, 1) /\ TLCSet(2, {})
  /\ oStage = 0 /\ oPend = {} /\ oIssued = [h \in Handlers |-> 0]

\* ---- conformance ---------------------------------------------------------
HStOf(h) ==
  CASE hs[h].pc = "idle"   -> "idle"
    [] hs[h].pc = "done"   -> "done"
    [] hs[h].pc = "parked" -> "parked"
    [] OTHER -> IF mutex = "leaked" THEN "locked" ELSE "running"

ModelBody ==
  [msn |-> del, open |-> openParts, hint |-> nextPart,
   segs |-> [i \in 1..Len(win) |-> <<win[i].id, win[i].gap, IF win[i].gap = 0 /\ Len(win) - i < 2 THEN win[i].np ELSE -1>>]]

BodyView(b) == [msn |-> b.msn, open |-> b.open, hint |-> b.hint, segs |-> b.segs]

Matches(o) ==
  /\ o.W = (IF wpc = "bcast" THEN "gate" ELSE "idle")
  /\ o.K = (IF kpc \in {"marked", "bcast"} THEN "gate" ELSE "idle")
  /\ \A i \in 1..Len(o.hs) :
       LET e == o.hs[i] IN
       /\ e.st = HStOf(e.h)
       /\ (e.st = "done" => e.code = hs[e.h].code)
  /\ CASE mutex = "leaked" -> o.pub.st = "locked"
       [] sclosed -> o.pub.st = "done" /\ o.pub.code = 500
       [] HasContent -> o.pub.st = "done" /\ o.pub.code = 200 /\ BodyView(o.pub.b) = ModelBody
       [] OTHER -> o.pub.st = "parked"

PrevOK == (l > 1 /\ Trace[l - 1].ev = "cmd") => Matches(Trace[l - 1])

ModelCmd(o) ==
  IF o.c = "req" THEN HStart(o.h, [kind |-> o.r.kind, M |-> o.r.M, P |-> o.r.P]) ELSE Cmd([c |-> o.c])

\* ---- observation bookkeeping ---------------------------------------------
ParkedIn(o) == {o.hs[i].h : i \in {j \in 1..Len(o.hs) : o.hs[j].st = "parked"}}

ObsUpdate(o) ==
  /\ oStage' = CASE o.c = "close" -> 1 [] o.c = "relK1" -> 2 [] o.c = "relK2" -> 3 [] OTHER -> oStage
  /\ oPend' = IF o.c = "close" /\ l > 1 /\ Trace[l - 1].ev = "cmd" THEN ParkedIn(Trace[l - 1]) ELSE oPend
  /\ oIssued' = IF o.c = "req" THEN [oIssued EXCEPT ![o.h] = l] ELSE oIssued

TraceCmd ==
  /\ mode = "ok" /\ l <= Len(Trace) /\ Trace[l].ev = "cmd"
  /\ Quiescent /\ PrevOK
  /\ ModelCmd(Trace[l])
  /\ hist' = hist /\ mode' = mode
  /\ ObsUpdate(Trace[l])
  /\ l' = l + 1

TraceDriftCmd ==
  /\ l <= Len(Trace) /\ Trace[l].ev \in {"cmd", "skip"}
  /\ \/ mode = "drift"
     \/ /\ mode = "ok" /\ Quiescent
        /\ \/ ~PrevOK
           \/ Trace[l].ev = "cmd" /\ ~ENABLED ModelCmd(Trace[l])
           \/ Trace[l].ev = "skip" /\ Trace[l].c # "req" /\ ENABLED Cmd([c |-> Trace[l].c])
  /\ mode' = "drift"
  /\ IF Trace[l].ev = "cmd" THEN ObsUpdate(Trace[l]) ELSE UNCHANGED ovars
  /\ UNCHANGED vars
  /\ l' = l + 1

TraceSkip ==
  /\ mode = "ok" /\ l <= Len(Trace) /\ Trace[l].ev = "skip"
  /\ Quiescent /\ PrevOK
  /\ (Trace[l].c = "req" \/ ~ENABLED Cmd([c |-> Trace[l].c]))
  /\ UNCHANGED <<vars, ovars, mode>>
  /\ l' = l + 1

TraceEnd ==
  /\ l <= Len(Trace) /\ Trace[l].ev = "end"
  /\ \/ mode = "drift" /\ mode' = mode
     \/ mode = "ok" /\ Quiescent /\ PrevOK /\ mode' = mode /\ TLCSet(2, TLCGet(2) \cup {l})
     \/ mode = "ok" /\ Quiescent /\ ~PrevOK /\ mode' = "drift"
  /\ UNCHANGED <<vars, ovars>>
  /\ l' = l + 1

TraceReset ==
  /\ l <= Len(Trace) /\ Trace[l].ev = "reset"
  /\ win' = <<>> /\ del' = 0 /\ nextSeg' = NumGaps /\ openParts' = 0 /\ nextPart' = 0 /\ started' = FALSE
  /\ mclosed' = FALSE /\ sclosed' = FALSE /\ filesGone' = FALSE /\ mutex' = "free"
  /\ hs' = [h \in Handlers |-> HIdle] /\ wpc' = "idle" /\ kpc' = "idle" /\ hist' = hist
  /\ oStage' = 0 /\ oPend' = {} /\ oIssued' = [h \in Handlers |-> 0]
  /\ mode' = "ok"
  /\ l' = l + 1

TraceInternal == mode = "ok" /\ Internal /\ UNCHANGED <<l, mode, ovars>>

TraceNext == TraceCmd \/ TraceDriftCmd \/ TraceSkip \/ TraceEnd \/ TraceReset \/ TraceInternal
TraceSpec == TraceInit /\ [][TraceNext]_tvars

HighWater == TLCSet(1, Max(TLCGet(1), l))
Post == PrintT(<<"HW", TLCGet(1)>>) /\ PrintT(<<"CONFORMING", Cardinality(TLCGet(2))>>)

-----------------------------------------------------------------------------
(* predicates over the observations *)

O == Trace[l - 1]
HasObs == l > 1 /\ l - 1 <= Len(Trace) /\ O.ev = "cmd"

\* content of an observed playlist projection b
BIds(b) == {b.segs[i][1] : i \in {j \in 1..Len(b.segs) : b.segs[j][2] = 0}}
BNp(b, id) == b.segs[CHOOSE i \in 1..Len(b.segs) : b.segs[i][2] = 0 /\ b.segs[i][1] = id][3]
BGapMsns(b) == {b.msn + i - 1 : i \in {j \in 1..Len(b.segs) : b.segs[j][2] = 1}}
BNextSeg(b) == IF BIds(b) = {} THEN -1 ELSE (CHOOSE x \in BIds(b) : \A y \in BIds(b) : y <= x) + 1
BRoll(b, M, P) == IF M \in BIds(b) /\ BNp(b, M) >= 0 /\ P >= BNp(b, M) THEN <<M + 1, 0>> ELSE <<M, P>>
BAvail(b, M, P) ==
  LET r == BRoll(b, M, P) IN
  \/ r[1] \in BIds(b)
  \/ (r[1] = BNextSeg(b) /\ r[2] < b.open)
  \/ r[1] \in BGapMsns(b)

PubBody == O.pub.st = "done" /\ O.pub.code = 200
WriterIdle == O.W = "idle" /\ O.K = "idle" /\ oStage = 0

\* C06 AnsweredWhenAvailable / HintBlocksThenExact (liveness turned into safety at quiescent points)
C06_AnsweredWhenAvailable ==
  (HasObs /\ PubBody /\ WriterIdle) =>
     \A i \in 1..Len(O.hs) :
        LET e == O.hs[i] IN
        /\ (e.st = "parked" /\ e.r.kind = "block") => ~BAvail(O.pub.b, e.r.M, e.r.P)
        /\ (e.st = "parked" /\ e.r.kind = "hint") => ~(O.pub.b.hint > e.r.P)

\* C06 AnswerClass: 200 only with the requested part in that very playlist; 400 only when allowed and at once
C06_AnswerClass ==
  HasObs => \A i \in 1..Len(O.hs) :
     LET e == O.hs[i] IN
     (e.st = "done" /\ e.fresh = 1 /\ e.r.kind = "block") =>
        /\ e.code \in {200, 400, 500}
        /\ (e.code = 200) => (e.b.ok = 1 /\ BAvail(e.b, e.r.M, e.r.P))
        /\ (e.code = 400) =>
              /\ oIssued[e.h] = l - 1                       \* Immediate400: answered in the step it was issued
              /\ PubBody => (e.r.M > BNextSeg(O.pub.b) + 1 \/ e.r.M <= O.pub.b.msn)   \* never for the open segment or the next
        /\ (e.code = 500) => oStage >= 1

C06_HintExact ==
  HasObs => \A i \in 1..Len(O.hs) :
     LET e == O.hs[i] IN
     (e.st = "done" /\ e.fresh = 1 /\ e.r.kind = "hint" /\ e.code = 200) => e.same = 1

\* C07: once Close has returned nobody is left inside, nothing is locked, the directory is empty,
\* the requests that were pending ended with a non-200 status, later requests return
C07_CloseReleases ==
  (HasObs /\ oStage = 3 /\ O.K = "idle") =>
     /\ \A i \in 1..Len(O.hs) : O.hs[i].st \in {"idle", "done"}
     /\ \A i \in 1..Len(O.hs) : (O.hs[i].h \in oPend /\ O.hs[i].st = "done" /\ O.hs[i].fresh = 1) => O.hs[i].code # 200
     /\ O.pub.st = "done" /\ O.pub.code # 200
     /\ O.files \in {-1, 0}

\* C08 (gated part): every playlist response is the snapshot of the state of that quiescent point
C08_Snapshot ==
  (HasObs /\ PubBody) => \A i \in 1..Len(O.hs) :
     LET e == O.hs[i] IN
     (e.st = "done" /\ e.fresh = 1 /\ e.code = 200 /\ e.r.kind \in {"plain", "block"}) => BodyView(e.b) = BodyView(O.pub.b)

\* a playlist is a consistent view: the target duration covers every listed duration (rounded), also for a
\* request that arrives while the writer is inside the OnEncodeError callback in the middle of a rotation
BViewOK(b) == \A i \in 1..Len(b.durs) : 1000 * b.td + 499 >= b.durs[i]
HasCb == "cb" \in DOMAIN O
C08_ViewsConsistent ==
  HasObs =>
    /\ (PubBody => BViewOK(O.pub.b))
    /\ (HasCb /\ O.cb.st = "done" /\ O.cb.code = 200) => BViewOK(O.cb.b)
    /\ \A i \in 1..Len(O.hs) : (O.hs[i].st = "done" /\ O.hs[i].code = 200 /\ O.hs[i].r.kind \in {"plain", "block"}) => BViewOK(O.hs[i].b)

C08_NoPanic == HasObs => \A i \in 1..Len(O.hs) : (O.hs[i].st = "done" => O.hs[i].code # 599) /\ O.werr = 0
=============================================================================
