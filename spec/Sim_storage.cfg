\* simulation run (tlc -simulate): random walks of the model, each printed as a script
CONSTANTS
  MaxParts = 3
  MaxLen = 6
  MaxOps = 14
  MaxReaders = 2
  TruncateAtFinalize = TRUE
  Emit = TRUE
  WriteSet <- MCWriteSet
  SeekSet <- MCSeekSet
  ReadSizes <- MCReadSizes
INIT Init
NEXT Next
CONSTRAINT Leaf
CHECK_DEADLOCK FALSE
