--------------------------------- MODULE M3U8 ---------------------------------
(***************************************************************************)
(* pkg/playlist (C14, C15) at the level of LINE TOKENS.                    *)
(*                                                                         *)
(*  - abstract playlist values: records whose optional fields are present  *)
(*    or absent (value CLASSES, not strings; the harness chooses concrete  *)
(*    strings and numbers)                                                 *)
(*  - Encode: Media.Marshal / Multivariant.Marshal transcribed tag by tag  *)
(*    to a sequence of tokens [t |-> tag, a |-> <<attribute names>>]       *)
(*  - Decode: Media.Unmarshal / Multivariant.Unmarshal as a fold over the  *)
(*    tokens (line dispatch with the curSegment / curKey accumulators)     *)
(*  - Grammar: an independent RFC 8216 / 8216bis acceptance predicate      *)
(*    over tokens with lexical classes                                     *)
(* TLC enumerates the values (every subset of optional fields per tag      *)
(* group) and checks  Decode(Encode(p)) = p  and  Grammar(Encode(p));      *)
(* M3U8Trace.tla evaluates the same Grammar and the round-trip clauses on  *)
(* what the REAL Marshal / Unmarshal produced for concrete instances.      *)
(*                                                                         *)
(* Flags select the code's behaviour before the "fix:" commits (kept as    *)
(* weakened variants): StartWritten, DiscSeqOwnValue, ServerControlJoin.   *)
(***************************************************************************)
EXTENDS Integers, Sequences, FiniteSets, TLC, Json

CONSTANTS StartWritten,        \* Media.Marshal writes EXT-X-START
          DiscSeqOwnValue,     \* EXT-X-DISCONTINUITY-SEQUENCE carries its own value (not MEDIA-SEQUENCE)
          ServerControlJoin,   \* SERVER-CONTROL attributes are joined without a leading comma
          TolerateUnquotedByteRange  \* known finding: BYTERANGE of EXT-X-PART / EXT-X-MAP is written unquoted

Tok(t, a) == [t |-> t, a |-> a]
Opt(b, s) == IF b THEN s ELSE <<>>

RECURSIVE CatSeq(_)
CatSeq(ss) == IF ss = <<>> THEN <<>> ELSE Head(ss) \o CatSeq(Tail(ss))

-----------------------------------------------------------------------------
(* abstract values *)

NoKey == "nil"
\* byte range classes: "no" | "len" | "lenstart"
BR == {"no", "len", "lenstart"}

PartV(ind, br, gap) == [ind |-> ind, br |-> br, gap |-> gap]
BasePart == PartV(FALSE, "no", FALSE)

SegV(disc, gap, dt, rate, key, br, parts, title) ==
  [disc |-> disc, gap |-> gap, dt |-> dt, rate |-> rate, key |-> key, br |-> br, parts |-> parts, title |-> title]
BaseSeg == SegV(FALSE, FALSE, FALSE, FALSE, NoKey, "no", <<>>, FALSE)

\* server control: absent, or present with any subset of its three attributes
NoSC == [on |-> FALSE, c |-> FALSE, p |-> FALSE, s |-> FALSE]
\* (a server-control value with no attribute at all is not a meaningful value: excluded, stated assumption)
SCSet == {NoSC} \cup {x \in {[on |-> TRUE, c |-> c, p |-> p, s |-> s] : c \in BOOLEAN, p \in BOOLEAN, s \in BOOLEAN} : x.c \/ x.p \/ x.s}
HasSC(sc, x) == sc.on /\ (CASE x = "c" -> sc.c [] x = "p" -> sc.p [] x = "s" -> sc.s)

BaseMedia ==
  [kind |-> "media", indep |-> FALSE, start |-> FALSE, cache |-> "no", sc |-> NoSC, pinf |-> FALSE, dseq |-> FALSE,
   ptype |-> "no", map |-> "no", skip |-> FALSE, segs |-> <<BaseSeg>>, parts |-> <<>>, hint |-> "no", endlist |-> FALSE]

\* ---- the enumerated value space: one tag group varied at a time (exhaustively inside the group) -------------
MediaHeaderValues ==
  {[BaseMedia EXCEPT !.indep = i, !.start = s, !.cache = c, !.dseq = d, !.ptype = t, !.endlist = e] :
     i \in BOOLEAN, s \in BOOLEAN, c \in {"no", "YES", "NO"}, d \in BOOLEAN, t \in {"no", "EVENT", "VOD"}, e \in BOOLEAN}
MediaLLValues ==
  {[BaseMedia EXCEPT !.sc = sc, !.pinf = p, !.skip = k, !.map = m] :
     sc \in SCSet, p \in BOOLEAN, k \in BOOLEAN, m \in BR \cup {"plain"}}
MediaSegValues ==
  {[BaseMedia EXCEPT !.segs = <<SegV(d, g, t, r, NoKey, b, <<>>, ti)>>] :
     d \in BOOLEAN, g \in BOOLEAN, t \in BOOLEAN, r \in BOOLEAN, b \in BR, ti \in BOOLEAN}
\* keys changing between segments; documented requirement: once a segment carries a key every later one does
\* k1: METHOD + URI; k3: the same method and URI as k1 plus an IV (a key change in the IV only); k2: every attribute
KeySeqs == {<<a, b, c>> : a \in {NoKey, "k1", "NONE"}, b \in {NoKey, "k1", "k2", "k3", "NONE"}, c \in {NoKey, "k1", "k2", "k3", "NONE"}}
ValidKeySeq(ks) == \A i \in 1..(Len(ks) - 1) : ks[i] # NoKey => ks[i + 1] # NoKey
MediaKeyValues ==
  {[BaseMedia EXCEPT !.segs = [i \in 1..3 |-> [BaseSeg EXCEPT !.key = ks[i]]]] : ks \in {k \in KeySeqs : ValidKeySeq(k)}}
PartSet == {PartV(i, b, g) : i \in BOOLEAN, b \in BR, g \in BOOLEAN}
MediaPartValues ==
  {[BaseMedia EXCEPT !.pinf = TRUE, !.segs = <<[BaseSeg EXCEPT !.parts = <<p, BasePart>>], BaseSeg>>, !.parts = tp, !.hint = h] :
     p \in PartSet, tp \in {<<>>, <<BasePart>>, <<PartV(TRUE, "lenstart", FALSE), BasePart>>}, h \in {"no", "plain", "start", "len", "startlen"}}

\* state carried from one segment to the next by the decoder's accumulators: a segment with exactly one optional field set,
\* before / between / after plain segments (a field that leaks into, or is taken from, a neighbour breaks the round trip)
OneFieldSegs ==
  {[BaseSeg EXCEPT !.disc = TRUE], [BaseSeg EXCEPT !.gap = TRUE], [BaseSeg EXCEPT !.dt = TRUE], [BaseSeg EXCEPT !.rate = TRUE],
   [BaseSeg EXCEPT !.br = "len"], [BaseSeg EXCEPT !.br = "lenstart"], [BaseSeg EXCEPT !.title = TRUE],
   [BaseSeg EXCEPT !.parts = <<BasePart>>]}
MediaCarryValues ==
  {[BaseMedia EXCEPT !.pinf = (s.parts # <<>>), !.segs = <<s, BaseSeg, BaseSeg>>] : s \in OneFieldSegs}
  \cup {[BaseMedia EXCEPT !.pinf = (s.parts # <<>>), !.segs = <<BaseSeg, s, BaseSeg>>] : s \in OneFieldSegs}
  \cup {[BaseMedia EXCEPT !.pinf = (s.parts # <<>>), !.segs = <<BaseSeg, BaseSeg, s>>] : s \in OneFieldSegs}

MediaValues == MediaHeaderValues \cup MediaLLValues \cup MediaSegValues \cup MediaKeyValues \cup MediaPartValues \cup MediaCarryValues

\* multivariant
VarV(avg, res, fps, grp) == [avg |-> avg, res |-> res, fps |-> fps, grp |-> grp]   \* grp \subseteq {"VIDEO","AUDIO","SUBTITLES","CLOSED-CAPTIONS"}
BaseVar == VarV(FALSE, FALSE, FALSE, {})
RendV(type, lang, name, auto, def, forced, chan, uri, instream) ==
  [type |-> type, lang |-> lang, name |-> name, auto |-> auto, def |-> def, forced |-> forced, chan |-> chan, uri |-> uri, instream |-> instream]
\* documented requirements: URI forbidden for CLOSED-CAPTIONS, required for SUBTITLES; INSTREAM-ID only and always
\* for CLOSED-CAPTIONS; CHANNELS only for AUDIO
ValidRend(r) ==
  /\ (r.type = "CLOSED-CAPTIONS" => ~r.uri /\ r.instream)
  /\ (r.type # "CLOSED-CAPTIONS" => ~r.instream)
  /\ (r.type = "SUBTITLES" => r.uri)
  /\ (r.chan => r.type = "AUDIO")
RendSet == {r \in {RendV(t, l, n, a, d, f, c, u, i) :
               t \in {"AUDIO", "VIDEO", "SUBTITLES", "CLOSED-CAPTIONS"}, l \in BOOLEAN, n \in {TRUE}, a \in BOOLEAN,
               d \in BOOLEAN, f \in {FALSE}, c \in BOOLEAN, u \in BOOLEAN, i \in BOOLEAN} : ValidRend(r)}
BaseMV == [kind |-> "mv", indep |-> FALSE, start |-> FALSE, vars |-> <<BaseVar>>, rends |-> <<>>]
MVValues ==
  {[BaseMV EXCEPT !.indep = i, !.start = s, !.vars = <<VarV(a, r, f, g), BaseVar>>] :
      i \in BOOLEAN, s \in BOOLEAN, a \in BOOLEAN, r \in BOOLEAN, f \in BOOLEAN, g \in SUBSET {"VIDEO", "AUDIO", "SUBTITLES", "CLOSED-CAPTIONS"}}
  \cup {[BaseMV EXCEPT !.rends = <<r>>] : r \in RendSet}
  \cup {[BaseMV EXCEPT !.rends = <<r, RendV("AUDIO", TRUE, TRUE, TRUE, FALSE, FALSE, FALSE, TRUE, FALSE)>>] :
          r \in {x \in RendSet : x.forced = FALSE /\ x.lang}}

Values == MediaValues \cup MVValues

-----------------------------------------------------------------------------
(* Encode: the Marshal functions, tag by tag *)

BRAttr(b) == Opt(b # "no", <<"BYTERANGE">>)

EncPart(p) == Tok("EXT-X-PART", <<"DURATION", "URI">> \o Opt(p.ind, <<"INDEPENDENT">>) \o BRAttr(p.br) \o Opt(p.gap, <<"GAP">>))

EncKey(k) ==
  IF k = "NONE" THEN Tok("EXT-X-KEY", <<"METHOD">>)
  ELSE IF k = "k1" THEN Tok("EXT-X-KEY", <<"METHOD", "URI">>)
  ELSE IF k = "k3" THEN Tok("EXT-X-KEY", <<"METHOD", "URI", "IV">>)
  ELSE Tok("EXT-X-KEY", <<"METHOD", "URI", "IV", "KEYFORMAT", "KEYFORMATVERSIONS">>)     \* k2: every attribute

EncSeg(s) ==
  Opt(s.disc, <<Tok("EXT-X-DISCONTINUITY", <<>>)>>)
  \o Opt(s.gap, <<Tok("EXT-X-GAP", <<>>)>>)
  \o Opt(s.dt, <<Tok("EXT-X-PROGRAM-DATE-TIME", <<>>)>>)
  \o Opt(s.rate, <<Tok("EXT-X-BITRATE", <<>>)>>)
  \o [i \in 1..Len(s.parts) |-> EncPart(s.parts[i])]
  \o <<Tok("EXTINF", <<>>)>>
  \o Opt(s.br # "no", <<Tok("EXT-X-BYTERANGE", <<>>)>>)
  \o <<Tok("URI", <<>>)>>

\* a key tag is written when the segment has a key different from the previous written one
RECURSIVE EncSegs(_, _)
EncSegs(segs, prev) ==
  IF segs = <<>> THEN <<>>
  ELSE LET s == Head(segs)
           w == s.key # NoKey /\ s.key # prev
       IN Opt(w, <<EncKey(s.key)>>) \o EncSeg(s) \o EncSegs(Tail(segs), IF w THEN s.key ELSE prev)

EncSC(sc) ==
  LET full == Opt(HasSC(sc, "c"), <<"CAN-BLOCK-RELOAD">>) \o Opt(HasSC(sc, "p"), <<"PART-HOLD-BACK">>) \o Opt(HasSC(sc, "s"), <<"CAN-SKIP-UNTIL">>)
  IN IF ServerControlJoin \/ HasSC(sc, "c") \/ full = <<>> THEN Tok("EXT-X-SERVER-CONTROL", full)
     ELSE Tok("EXT-X-SERVER-CONTROL", <<"<leading-comma>">> \o full)       \* the attribute list starts with a comma

EncHint(h) ==
  Tok("EXT-X-PRELOAD-HINT", <<"TYPE", "URI">> \o Opt(h \in {"start", "startlen"}, <<"BYTERANGE-START">>)
                                            \o Opt(h \in {"len", "startlen"}, <<"BYTERANGE-LENGTH">>))

EncMedia(p) ==
  <<Tok("EXTM3U", <<>>), Tok("EXT-X-VERSION", <<>>)>>
  \o Opt(p.indep, <<Tok("EXT-X-INDEPENDENT-SEGMENTS", <<>>)>>)
  \o Opt(p.start /\ StartWritten, <<Tok("EXT-X-START", <<"TIME-OFFSET">>)>>)
  \o Opt(p.cache # "no", <<Tok("EXT-X-ALLOW-CACHE", <<>>)>>)
  \o <<Tok("EXT-X-TARGETDURATION", <<>>)>>
  \o Opt(p.sc.on, <<EncSC(p.sc)>>)
  \o Opt(p.pinf, <<Tok("EXT-X-PART-INF", <<"PART-TARGET">>)>>)
  \o <<Tok("EXT-X-MEDIA-SEQUENCE", <<>>)>>
  \o Opt(p.dseq, <<Tok("EXT-X-DISCONTINUITY-SEQUENCE", <<>>)>>)
  \o Opt(p.ptype # "no", <<Tok("EXT-X-PLAYLIST-TYPE", <<>>)>>)
  \o Opt(p.map # "no", <<Tok("EXT-X-MAP", <<"URI">> \o Opt(p.map \in BR \ {"no"}, <<"BYTERANGE">>))>>)
  \o Opt(p.skip, <<Tok("EXT-X-SKIP", <<"SKIPPED-SEGMENTS">>)>>)
  \o EncSegs(p.segs, NoKey)
  \o [i \in 1..Len(p.parts) |-> EncPart(p.parts[i])]
  \o Opt(p.hint # "no", <<EncHint(p.hint)>>)
  \o Opt(p.endlist, <<Tok("EXT-X-ENDLIST", <<>>)>>)

GrpOrder == <<"VIDEO", "AUDIO", "SUBTITLES", "CLOSED-CAPTIONS">>
EncVar(v) ==
  <<Tok("EXT-X-STREAM-INF", <<"BANDWIDTH">> \o Opt(v.avg, <<"AVERAGE-BANDWIDTH">>) \o <<"CODECS">> \o Opt(v.res, <<"RESOLUTION">>)
        \o Opt(v.fps, <<"FRAME-RATE">>) \o CatSeq([i \in 1..4 |-> Opt(GrpOrder[i] \in v.grp, <<GrpOrder[i]>>)])),
    Tok("URI", <<>>)>>
EncRend(r) ==
  Tok("EXT-X-MEDIA", <<"TYPE", "GROUP-ID">> \o Opt(r.lang, <<"LANGUAGE">>) \o Opt(r.name, <<"NAME">>) \o Opt(r.auto, <<"AUTOSELECT">>)
       \o Opt(r.def, <<"DEFAULT">>) \o Opt(r.forced, <<"FORCED">>) \o Opt(r.chan, <<"CHANNELS">>) \o Opt(r.uri, <<"URI">>)
       \o Opt(r.instream, <<"INSTREAM-ID">>))
EncMV(p) ==
  <<Tok("EXTM3U", <<>>), Tok("EXT-X-VERSION", <<>>)>>
  \o Opt(p.indep, <<Tok("EXT-X-INDEPENDENT-SEGMENTS", <<>>)>>)
  \o Opt(p.start, <<Tok("EXT-X-START", <<"TIME-OFFSET">>)>>)
  \o [i \in 1..Len(p.rends) |-> EncRend(p.rends[i])]
  \o CatSeq([i \in 1..Len(p.vars) |-> EncVar(p.vars[i])])

Encode(p) == IF p.kind = "media" THEN EncMedia(p) ELSE EncMV(p)

-----------------------------------------------------------------------------
(* Decode: the Unmarshal functions as a fold over tokens *)

Has(tok, a) == \E i \in 1..Len(tok.a) : tok.a[i] = a
BROf(tok) == IF Has(tok, "BYTERANGE") THEN "yes" ELSE "no"

DecPart(tok) == [ind |-> Has(tok, "INDEPENDENT"), br |-> BROf(tok), gap |-> Has(tok, "GAP")]
KeyOf(tok) == IF ~Has(tok, "URI") THEN "NONE" ELSE IF Has(tok, "KEYFORMAT") THEN "k2" ELSE IF Has(tok, "IV") THEN "k3" ELSE "k1"

\* state of the media decoder: [p, cur (segment being assembled), key]
RECURSIVE DecMediaFold(_, _)
DecMediaFold(toks, st) ==
  IF toks = <<>> THEN [st.p EXCEPT !.parts = st.cur.parts]
  ELSE LET k == Head(toks)
           t == k.t
           st2 ==
             CASE t = "EXT-X-INDEPENDENT-SEGMENTS" -> [st EXCEPT !.p.indep = TRUE]
               [] t = "EXT-X-START" -> [st EXCEPT !.p.start = TRUE]
               [] t = "EXT-X-ALLOW-CACHE" -> [st EXCEPT !.p.cache = "set"]
               [] t = "EXT-X-SERVER-CONTROL" ->
                    \* with a leading comma the first attribute's name is not recognised (",PART-HOLD-BACK")
                    LET first == IF Has(k, "<leading-comma>") THEN k.a[2] ELSE "" IN
                    [st EXCEPT !.p.sc = [on |-> TRUE, c |-> Has(k, "CAN-BLOCK-RELOAD"),
                                         p |-> Has(k, "PART-HOLD-BACK") /\ first # "PART-HOLD-BACK",
                                         s |-> Has(k, "CAN-SKIP-UNTIL") /\ first # "CAN-SKIP-UNTIL"]]
               [] t = "EXT-X-PART-INF" -> [st EXCEPT !.p.pinf = TRUE]
               [] t = "EXT-X-DISCONTINUITY-SEQUENCE" -> [st EXCEPT !.p.dseq = TRUE]
               [] t = "EXT-X-PLAYLIST-TYPE" -> [st EXCEPT !.p.ptype = "set"]
               [] t = "EXT-X-MAP" -> [st EXCEPT !.p.map = IF Has(k, "BYTERANGE") THEN "range" ELSE "plain"]
               [] t = "EXT-X-SKIP" -> [st EXCEPT !.p.skip = TRUE]
               [] t = "EXT-X-KEY" -> [st EXCEPT !.key = KeyOf(k)]
               [] t = "EXT-X-DISCONTINUITY" -> [st EXCEPT !.cur.disc = TRUE]
               [] t = "EXT-X-GAP" -> [st EXCEPT !.cur.gap = TRUE]
               [] t = "EXT-X-PROGRAM-DATE-TIME" -> [st EXCEPT !.cur.dt = TRUE]
               [] t = "EXT-X-BITRATE" -> [st EXCEPT !.cur.rate = TRUE]
               [] t = "EXTINF" -> [st EXCEPT !.cur.key = st.key]
               [] t = "EXT-X-BYTERANGE" -> [st EXCEPT !.cur.br = "yes"]
               [] t = "EXT-X-PART" -> [st EXCEPT !.cur.parts = Append(st.cur.parts, DecPart(k))]
               [] t = "URI" -> [st EXCEPT !.p.segs = Append(st.p.segs, st.cur), !.cur = BaseSeg]
               [] t = "EXT-X-PRELOAD-HINT" -> [st EXCEPT !.p.hint = "set"]
               [] t = "EXT-X-ENDLIST" -> [st EXCEPT !.p.endlist = TRUE]
               [] OTHER -> st
       IN DecMediaFold(Tail(toks), st2)

\* comparison is on presence classes: normalise a value to what the token level can tell
NormBR(b) == IF b = "no" THEN "no" ELSE "yes"
NormPart(p) == [ind |-> p.ind, br |-> NormBR(p.br), gap |-> p.gap]
NormSeg(s) == [s EXCEPT !.br = NormBR(s.br), !.parts = [i \in 1..Len(s.parts) |-> NormPart(s.parts[i])], !.title = FALSE]
NormMedia(p) ==
  [p EXCEPT !.cache = IF p.cache = "no" THEN "no" ELSE "set", !.ptype = IF p.ptype = "no" THEN "no" ELSE "set",
            !.map = IF p.map = "no" THEN "no" ELSE IF p.map = "plain" THEN "plain" ELSE "range",
            !.hint = IF p.hint = "no" THEN "no" ELSE "set",
            !.segs = [i \in 1..Len(p.segs) |-> NormSeg(p.segs[i])],
            !.parts = [i \in 1..Len(p.parts) |-> NormPart(p.parts[i])]]

DecodeMedia(toks) ==
  DecMediaFold(toks, [p |-> [BaseMedia EXCEPT !.segs = <<>>], cur |-> BaseSeg, key |-> NoKey])

RECURSIVE DecMVFold(_, _)
DecMVFold(toks, p) ==
  IF toks = <<>> THEN p
  ELSE LET k == Head(toks)
           p2 == CASE k.t = "EXT-X-INDEPENDENT-SEGMENTS" -> [p EXCEPT !.indep = TRUE]
                   [] k.t = "EXT-X-START" -> [p EXCEPT !.start = TRUE]
                   [] k.t = "EXT-X-STREAM-INF" ->
                        [p EXCEPT !.vars = Append(p.vars, VarV(Has(k, "AVERAGE-BANDWIDTH"), Has(k, "RESOLUTION"), Has(k, "FRAME-RATE"),
                                                   {g \in {"VIDEO", "AUDIO", "SUBTITLES", "CLOSED-CAPTIONS"} : Has(k, g)}))]
                   [] k.t = "EXT-X-MEDIA" ->
                        [p EXCEPT !.rends = Append(p.rends, [type |-> "?", lang |-> Has(k, "LANGUAGE"), name |-> Has(k, "NAME"),
                                 auto |-> Has(k, "AUTOSELECT"), def |-> Has(k, "DEFAULT"), forced |-> Has(k, "FORCED"), chan |-> Has(k, "CHANNELS"),
                                 uri |-> Has(k, "URI"), instream |-> Has(k, "INSTREAM-ID")])]
                   [] OTHER -> p
       IN DecMVFold(Tail(toks), p2)
NormMV(p) == [p EXCEPT !.rends = [i \in 1..Len(p.rends) |-> [p.rends[i] EXCEPT !.type = "?"]]]
DecodeMV(toks) == DecMVFold(toks, [BaseMV EXCEPT !.vars = <<>>])

RoundTripOK(p) ==
  IF p.kind = "media" THEN DecodeMedia(Encode(p)) = NormMedia(p) ELSE DecodeMV(Encode(p)) = NormMV(p)

-----------------------------------------------------------------------------
(* Grammar: independent acceptance predicate over tokens [t, a] (attribute names; lexical classes when the
   token comes from real text: field c, same length as a) *)

Count(toks, t) == Cardinality({i \in 1..Len(toks) : toks[i].t = t})
FirstIdx(toks, t) == IF Count(toks, t) = 0 THEN 0 ELSE CHOOSE i \in 1..Len(toks) : toks[i].t = t /\ \A j \in 1..(i - 1) : toks[j].t # t

MediaOnly == {"EXT-X-TARGETDURATION", "EXT-X-MEDIA-SEQUENCE", "EXT-X-DISCONTINUITY-SEQUENCE", "EXT-X-PLAYLIST-TYPE", "EXT-X-ENDLIST",
              "EXT-X-SERVER-CONTROL", "EXT-X-PART-INF", "EXT-X-MAP", "EXT-X-SKIP", "EXT-X-KEY", "EXT-X-DISCONTINUITY", "EXT-X-GAP",
              "EXT-X-PROGRAM-DATE-TIME", "EXT-X-BITRATE", "EXTINF", "EXT-X-BYTERANGE", "EXT-X-PART", "EXT-X-PRELOAD-HINT", "EXT-X-ALLOW-CACHE"}
MVOnly == {"EXT-X-STREAM-INF", "EXT-X-MEDIA"}
Once == {"EXTM3U", "EXT-X-VERSION", "EXT-X-INDEPENDENT-SEGMENTS", "EXT-X-START", "EXT-X-TARGETDURATION", "EXT-X-MEDIA-SEQUENCE",
         "EXT-X-DISCONTINUITY-SEQUENCE", "EXT-X-PLAYLIST-TYPE", "EXT-X-ENDLIST", "EXT-X-SERVER-CONTROL", "EXT-X-PART-INF", "EXT-X-SKIP",
         "EXT-X-PRELOAD-HINT", "EXT-X-ALLOW-CACHE"}
SegTags == {"EXT-X-DISCONTINUITY", "EXT-X-GAP", "EXT-X-PROGRAM-DATE-TIME", "EXT-X-BITRATE", "EXT-X-PART", "EXTINF", "EXT-X-BYTERANGE", "EXT-X-KEY"}

\* required attributes and the lexical class of every known attribute
Required(t) ==
  CASE t = "EXT-X-PART" -> {"DURATION", "URI"}
    [] t = "EXT-X-MAP" -> {"URI"}
    [] t = "EXT-X-KEY" -> {"METHOD"}
    [] t = "EXT-X-PART-INF" -> {"PART-TARGET"}
    [] t = "EXT-X-SKIP" -> {"SKIPPED-SEGMENTS"}
    [] t = "EXT-X-PRELOAD-HINT" -> {"TYPE", "URI"}
    [] t = "EXT-X-START" -> {"TIME-OFFSET"}
    [] t = "EXT-X-STREAM-INF" -> {"BANDWIDTH"}
    [] t = "EXT-X-MEDIA" -> {"TYPE", "GROUP-ID", "NAME"}
    [] OTHER -> {}

ClassOf(a) ==
  CASE a \in {"DURATION", "PART-TARGET", "PART-HOLD-BACK", "CAN-SKIP-UNTIL", "TIME-OFFSET", "FRAME-RATE", "HOLD-BACK"} -> {"float", "int"}
    [] a = "BYTERANGE" -> IF TolerateUnquotedByteRange THEN {"quoted", "enum", "int"} ELSE {"quoted"}
    [] a \in {"URI", "KEYFORMAT", "KEYFORMATVERSIONS", "CODECS", "VIDEO", "AUDIO", "SUBTITLES", "GROUP-ID", "LANGUAGE", "NAME",
              "CHANNELS", "INSTREAM-ID", "ASSOC-LANGUAGE", "CHARACTERISTICS"} -> {"quoted"}
    [] a = "CLOSED-CAPTIONS" -> {"quoted", "enum"}
    [] a \in {"BANDWIDTH", "AVERAGE-BANDWIDTH", "SKIPPED-SEGMENTS", "BYTERANGE-START", "BYTERANGE-LENGTH"} -> {"int"}
    [] a \in {"INDEPENDENT", "GAP", "CAN-BLOCK-RELOAD", "METHOD", "TYPE", "DEFAULT", "AUTOSELECT", "FORCED", "PRECISE"} -> {"enum"}
    [] a = "IV" -> {"hex"}
    [] a = "RESOLUTION" -> {"res"}
    [] OTHER -> {"float", "int", "quoted", "enum", "hex", "res"}       \* unknown attribute: any well-formed value

AttrsOK(tok) ==
  /\ ("aerr" \in DOMAIN tok => tok.aerr = 0)                         \* attribute-list syntax (commas, quotes, names)
  /\ \A i \in 1..Len(tok.a) : tok.a[i] # "<leading-comma>"
  /\ \A r \in Required(tok.t) : Has(tok, r)
  /\ \A i, j \in 1..Len(tok.a) : i # j => tok.a[i] # tok.a[j]        \* no attribute twice
  /\ ("c" \in DOMAIN tok) => \A i \in 1..Len(tok.a) : tok.c[i] \in ClassOf(tok.a[i])

SimpleValOK(tok) ==      \* tags with one value: lexical class logged by the tokenizer as field v
  ("v" \in DOMAIN tok) =>
     CASE tok.t \in {"EXT-X-VERSION", "EXT-X-TARGETDURATION", "EXT-X-MEDIA-SEQUENCE", "EXT-X-DISCONTINUITY-SEQUENCE", "EXT-X-BITRATE"} -> tok.v = "int"
       [] tok.t = "EXTINF" -> tok.v \in {"int", "float"}
       [] tok.t \in {"EXT-X-PLAYLIST-TYPE", "EXT-X-ALLOW-CACHE"} -> tok.v = "enum"
       [] tok.t = "EXT-X-BYTERANGE" -> tok.v \in {"int", "range"}
       [] tok.t = "EXT-X-PROGRAM-DATE-TIME" -> tok.v = "date"
       [] OTHER -> TRUE

Grammar(toks) ==
  LET isMV == Count(toks, "EXT-X-STREAM-INF") > 0
      n == Len(toks)
  IN /\ n >= 1 /\ toks[1].t = "EXTM3U"
     /\ \A t \in Once : Count(toks, t) <= 1
     /\ \A i \in 1..n : AttrsOK(toks[i]) /\ SimpleValOK(toks[i])
     /\ Count(toks, "EXT-X-VERSION") = 1
     /\ IF isMV
        THEN /\ \A i \in 1..n : toks[i].t \notin MediaOnly
             \* EXT-X-STREAM-INF immediately followed by its URI; every URI preceded by one
             /\ \A i \in 1..n : toks[i].t = "EXT-X-STREAM-INF" => (i < n /\ toks[i + 1].t = "URI")
             /\ \A i \in 1..n : toks[i].t = "URI" => (i > 1 /\ toks[i - 1].t = "EXT-X-STREAM-INF")
        ELSE /\ \A i \in 1..n : toks[i].t \notin MVOnly
             /\ Count(toks, "EXT-X-TARGETDURATION") = 1
             /\ Count(toks, "URI") >= 1
             \* every URI line is preceded by its EXTINF (optionally a BYTERANGE in between)
             /\ \A i \in 1..n : toks[i].t = "URI" =>
                   \/ (i > 1 /\ toks[i - 1].t = "EXTINF")
                   \/ (i > 2 /\ toks[i - 1].t = "EXT-X-BYTERANGE" /\ toks[i - 2].t = "EXTINF")
             \* every EXTINF gets its URI
             /\ \A i \in 1..n : toks[i].t = "EXTINF" =>
                   \/ (i < n /\ toks[i + 1].t = "URI")
                   \/ (i + 1 < n /\ toks[i + 1].t = "EXT-X-BYTERANGE" /\ toks[i + 2].t = "URI")
             \* playlist-level numbering tags come before the first segment
             /\ LET fs == FirstIdx(toks, "URI") IN
                \A t \in {"EXT-X-TARGETDURATION", "EXT-X-MEDIA-SEQUENCE", "EXT-X-DISCONTINUITY-SEQUENCE", "EXT-X-VERSION"} :
                   FirstIdx(toks, t) < fs
             /\ (Count(toks, "EXT-X-ENDLIST") = 1 => toks[n].t = "EXT-X-ENDLIST")
             /\ (Count(toks, "EXT-X-PART") > 0 => Count(toks, "EXT-X-PART-INF") = 1)

=============================================================================
