----------------------------- MODULE MCHlsMuxer -----------------------------
(***************************************************************************)
(* Design check: every write sequence (bounded) through the model of       *)
(* HlsMuxer.tla, with the monitor of MuxMonitor.tla fed by MRender.  The   *)
(* clauses of C01-C04, C18, C19 are then invariants of the model.          *)
(* One tick = 1 ms (ups = 1000) so that the part-duration arithmetic of    *)
(* the code is reproduced exactly.                                         *)
(***************************************************************************)
EXTENDS HlsMuxer, Json

CONSTANTS Variant,       \* "mpegts" | "fmp4" | "ll"
          TrackKinds,    \* e.g. <<"v", "a">>
          SegCount, SegMin, PartMin, MaxSize,
          Deltas,        \* video frame durations (ticks)
          AudioDur,      \* duration of one audio unit (ticks)
          VKinds,        \* set of <<ra, ps>> a video unit may have
          Sizes, MaxWrites, MaxAU, StartDts, MinAUc, Emit, ConstSd, NGaps,
          WeakVariant    \* "" = the model as implemented; otherwise one of the weakened variants of HlsMuxer.Weak

VARIABLES ms, mon, cur, nid, nw, hist

vars == <<ms, mon, cur, nid, nw, hist>>

NTk == Len(TrackKinds)
LeadT == IF \E t \in 1..NTk : TrackKinds[t] = "v" THEN CHOOSE t \in 1..NTk : TrackKinds[t] = "v" ELSE 1

Cfg ==
  [ variant |-> Variant, lead |-> LeadT, weak |-> WeakVariant,
    leadStream |-> IF Variant = "mpegts" THEN 1 ELSE LeadT,
    segCount |-> SegCount, segMin |-> SegMin, partMin |-> PartMin, maxSize |-> MaxSize,
    ups |-> 1000, msn |-> 1, msd |-> 1, grid |-> 5, minAU |-> MinAUc, numGaps |-> NGaps, constSd |-> ConstSd,
    tracks |-> [t \in 1..NTk |-> [k |-> TrackKinds[t], rate |-> 1000, codec |-> TrackKinds[t],
                                  off |-> IF Variant = "mpegts" THEN 0 ELSE 10000, tsnum |-> 90, tsden |-> 1, sd |-> AudioDur,
                                  def |-> 0, named |-> 0]],
    streams |-> IF Variant = "mpegts" THEN <<[id |-> "main", tracks |-> [t \in 1..NTk |-> t]]>>
                ELSE [t \in 1..NTk |-> [id |-> "s", tracks |-> <<t>>]] ]

Init ==
  /\ ms = MInit(Cfg) /\ mon = MonInit(Cfg)
  /\ cur = [t \in 1..NTk |-> StartDts] /\ nid = [t \in 1..NTk |-> 1] /\ nw = 0 /\ hist = <<>>

WantAll == {"c01", "c02", "c03", "c04", "c18", "c19"}

Step(w) ==
  LET m1  == MWrite(Cfg, ms, w)
      ob  == MRender(Cfg, m1)
      wr  == [t |-> w.t, u |-> w.u, ok |-> IF m1.err THEN 0 ELSE 1, pl |-> ob.pl, emit |-> ob.emit, init |-> ob.init]
  IN /\ ms' = MarkSeen(Cfg, m1)
     /\ mon' = MonStep(Cfg, mon, wr, WantAll)
     /\ nw' = nw + 1
     /\ hist' = IF Emit THEN Append(hist, [t |-> w.t, u |-> w.u]) ELSE hist

VideoWrite(t) ==
  \E d \in Deltas, k \in VKinds, sz \in Sizes :
    /\ LET u == [id |-> nid[t], dts |-> cur[t], ra |-> k[1], ps |-> k[2], size |-> sz, ntp |-> 1000 * (nw + 1)]
       IN Step([t |-> t, u |-> <<u>>])
    /\ cur' = [cur EXCEPT ![t] = cur[t] + d]
    /\ nid' = [nid EXCEPT ![t] = nid[t] + 1]

AudioWrite(t) ==
  \E n \in 1..MaxAU, sz \in Sizes :
    /\ LET us == [i \in 1..n |-> [id |-> nid[t] + i - 1, dts |-> cur[t] + (i - 1) * AudioDur, ra |-> 1, ps |-> 0,
                                  size |-> sz, ntp |-> 1000 * (nw + 1) + (i - 1) * AudioDur]]
       IN Step([t |-> t, u |-> us])
    /\ cur' = [cur EXCEPT ![t] = cur[t] + n * AudioDur]
    /\ nid' = [nid EXCEPT ![t] = nid[t] + n]

Next ==
  /\ nw < MaxWrites /\ ~ms.err
  /\ \E t \in 1..NTk : IF TrackKinds[t] = "v" THEN VideoWrite(t) ELSE AudioWrite(t)

Spec == Init /\ [][Next]_vars

C01 == mon.f.c01
C02 == mon.f.c02
C03 == mon.f.c03
C04 == mon.f.c04
C18 == mon.f.c18
C19 == mon.f.c19

\* sanity: structural invariants of the model itself
WindowBounded == \A s \in 1..NS(Cfg) : Len(ms.st[s].win) <= SegCount
IdsConsistent == \A s \in 1..NS(Cfg) :
   \A i \in 1..Len(ms.st[s].win) : ms.st[s].win[i].gap = 0 => ms.st[s].win[i].id = ms.st[s].del + i - 1

Leaf == (Emit /\ (nw = MaxWrites \/ ms.err)) => PrintT(<<"HIST", ToJson(hist)>>)

View == <<ms, mon, cur, nid, nw>>

\* constants for the configurations
TK_V == <<"v">>
TK_VA == <<"v", "a">>
TK_A == <<"a">>
TK_AV == <<"a", "v">>
D12 == {1, 2}
D123 == {1, 2, 3}
D2 == {2}
D40 == {40}
D2040 == {20, 40}
D204060 == {20, 40, 60}
S1 == {1}
S12 == {1, 3}
VK4 == {<<1, 1>>, <<0, 0>>, <<1, 2>>, <<0, 2>>}
VK3 == {<<1, 1>>, <<0, 0>>, <<1, 2>>}
VK2 == {<<1, 1>>, <<0, 0>>}
=============================================================================
