SPECIFICATION TraceSpec
CONSTANTS
  InitialDistance = 3
  MaxDistance = 5
  Variant = "ok"
  Want = {"c11"}
  TolerateStaleAnchor = TRUE
INVARIANTS C11_Fetching
POSTCONDITION Post
CHECK_DEADLOCK FALSE
