CONSTANTS
  SegCount = 7
  NumGaps = 7
  MaxSegs = 9
  MaxPartsPerSeg = 4
  Handlers <- H2
  Reqs <- RGen
  StreamClosedUnderLock = TRUE
  HintUnlocksOnClosed = TRUE
  RolloverChecksOpen = TRUE
  GapIsContent = TRUE
  MaxCmds = 30
  Record = TRUE
  CloseAfter = 6
  Emit = TRUE
INIT Init
NEXT Next
CONSTRAINT Leaf
CHECK_DEADLOCK FALSE
