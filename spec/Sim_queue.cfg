CONSTANTS
  MaxPush = 8
  N = 1
  WaitCaptures = TRUE
  PullCaptures = TRUE
  Alternate = FALSE
  MaxCmds = 24
  Emit = TRUE
  Record = TRUE
INIT Init
NEXT Next
CONSTRAINT Leaf
CHECK_DEADLOCK FALSE
