---------------------------- MODULE MCMuxerServe ----------------------------
EXTENDS MuxerServe
H2 == {1, 2}
H3 == {1, 2, 3}
\* request alphabet: M relative to the open segment, P absolute (-1 = no _HLS_part)
RSmall == {[kind |-> "plain", M |-> 0, P |-> -1], [kind |-> "mv", M |-> 0, P |-> -1], [kind |-> "hint", M |-> 0, P |-> 0],
           [kind |-> "block", M |-> 0, P |-> -1], [kind |-> "block", M |-> 0, P |-> 0], [kind |-> "block", M |-> 0, P |-> 1],
           [kind |-> "block", M |-> -1, P |-> 1], [kind |-> "block", M |-> -1, P |-> 2], [kind |-> "block", M |-> 1, P |-> 0],
           [kind |-> "block", M |-> 2, P |-> -1], [kind |-> "block", M |-> -2, P |-> 0], [kind |-> "block", M |-> -3, P |-> -1]}
RGen == {[kind |-> "plain", M |-> 0, P |-> -1], [kind |-> "hint", M |-> 0, P |-> 0],
         [kind |-> "block", M |-> 0, P |-> 0], [kind |-> "block", M |-> 0, P |-> 1], [kind |-> "block", M |-> -1, P |-> 3],
         [kind |-> "block", M |-> 1, P |-> -1], [kind |-> "block", M |-> -3, P |-> 0], [kind |-> "mv", M |-> 0, P |-> -1]}
H1 == {1}
=============================================================================
