------------------------------- MODULE SegQueue -------------------------------
(***************************************************************************)
(* client_segment_queue.go (C20): one producer (the stream downloader:    *)
(* push, waitUntilSizeIsBelow(N)), one consumer (the stream processor:     *)
(* pull) and cancellation.                                                 *)
(*                                                                         *)
(* Granularity follows the code's synchronization points.  push is one     *)
(* critical section.  pull and waitUntilSizeIsBelow evaluate under the     *)
(* mutex (Eval), Unlock, and only then enter a select on a wake-up         *)
(* channel: the step between Unlock and the select is where the harness    *)
(* gates the real goroutine (hooks q.pull.afterUnlock / q.wait.afterUnlock)*)
(* so it is a separate state here ("gate"), followed by "sel".             *)
(* Channels are modelled by identities: didPush / didPull hold the current *)
(* identity, `closed` the identities already closed.                       *)
(*                                                                         *)
(* WaitCaptures / PullCaptures say whether the channel waited on is the    *)
(* one read under the mutex (captured) or the one stored in the queue when *)
(* the select is entered.  pull captures; waitUntilSizeIsBelow did not     *)
(* until the "fix:" commit (finding S4) - the weakened variants are kept   *)
(* as attack-schedule generators.                                          *)
(***************************************************************************)
EXTENDS Integers, Sequences, FiniteSets, TLC, Json

CONSTANTS MaxPush,        \* number of segments the producer may push
          N,              \* threshold of waitUntilSizeIsBelow (1 in runTraditional)
          WaitCaptures, PullCaptures,
          Alternate,      \* TRUE: producer alternates push / wait as runTraditional does
          MaxCmds, Emit,
          Record          \* TRUE: keep the command history (generation / attack runs)

VARIABLES q, pushed, pulled, didPush, didPull, closed, nextCh,
          P, C,           \* [pc |-> "idle" | "gate" | "sel", ch |-> channel]
          cancelled, pret, cret, needWait, hist

vars == <<q, pushed, pulled, didPush, didPull, closed, nextCh, P, C, cancelled, pret, cret, needWait, hist>>

Idle == [pc |-> "idle", ch |-> 0]

Init ==
  /\ q = <<>> /\ pushed = 0 /\ pulled = <<>>
  /\ didPush = 1 /\ didPull = 2 /\ closed = {} /\ nextCh = 3
  /\ P = Idle /\ C = Idle /\ cancelled = FALSE
  /\ pret = "none" /\ cret = -3 /\ needWait = FALSE
  /\ hist = <<>>

-----------------------------------------------------------------------------
(* critical sections *)

\* push: append; if the queue was empty close didPush and replace it
PushCS ==
  /\ q' = Append(q, pushed + 1)
  /\ pushed' = pushed + 1
  /\ IF q = <<>>
     THEN closed' = closed \cup {didPush} /\ didPush' = nextCh /\ nextCh' = nextCh + 1
     ELSE UNCHANGED <<closed, didPush, nextCh>>
  /\ UNCHANGED <<pulled, didPull>>

\* waitUntilSizeIsBelow: evaluate the loop condition under the mutex
WaitEval ==
  /\ IF Len(q) > N
     THEN P' = [pc |-> "gate", ch |-> didPull] /\ pret' = "none"
     ELSE P' = Idle /\ pret' = "true"
  /\ UNCHANGED <<q, pushed, pulled, didPush, didPull, closed, nextCh>>

\* pull: evaluate under the mutex; take the head and signal didPull, or go waiting
PullEval ==
  IF q = <<>>
  THEN /\ C' = [pc |-> "gate", ch |-> didPush] /\ cret' = -3
       /\ UNCHANGED <<q, pushed, pulled, didPush, didPull, closed, nextCh>>
  ELSE /\ C' = Idle /\ cret' = Head(q)
       /\ pulled' = Append(pulled, Head(q)) /\ q' = Tail(q)
       /\ closed' = closed \cup {didPull} /\ didPull' = nextCh /\ nextCh' = nextCh + 1
       /\ UNCHANGED <<pushed, didPush>>

-----------------------------------------------------------------------------
(* scheduler commands: what the harness can make the real goroutines do *)

CmdPush ==
  /\ P.pc = "idle" /\ pushed < MaxPush /\ (Alternate => ~needWait /\ ~cancelled)
  /\ PushCS
  /\ needWait' = TRUE /\ pret' = "none"
  /\ UNCHANGED <<P, C, cancelled, cret>>

CmdWait ==
  /\ P.pc = "idle" /\ (Alternate => needWait)
  /\ WaitEval
  /\ needWait' = FALSE
  /\ UNCHANGED <<C, cancelled, cret>>

\* release the producer from its gate: it enters the select
CmdRelP ==
  /\ P.pc = "gate"
  /\ P' = [pc |-> "sel", ch |-> IF WaitCaptures THEN P.ch ELSE didPull]
  /\ UNCHANGED <<q, pushed, pulled, didPush, didPull, closed, nextCh, C, cancelled, pret, cret, needWait>>

CmdPull ==
  /\ C.pc = "idle"
  /\ PullEval
  /\ UNCHANGED <<P, cancelled, pret, needWait>>

CmdRelC ==
  /\ C.pc = "gate"
  /\ C' = [pc |-> "sel", ch |-> IF PullCaptures THEN C.ch ELSE didPush]
  /\ UNCHANGED <<q, pushed, pulled, didPush, didPull, closed, nextCh, P, cancelled, pret, cret, needWait>>

CmdCancel ==
  /\ ~cancelled /\ cancelled' = TRUE
  /\ UNCHANGED <<q, pushed, pulled, didPush, didPull, closed, nextCh, P, C, pret, cret, needWait>>

Cmd(c) ==
  CASE c = "push"   -> CmdPush
    [] c = "wait"   -> CmdWait
    [] c = "relP"   -> CmdRelP
    [] c = "pull"   -> CmdPull
    [] c = "relC"   -> CmdRelC
    [] c = "cancel" -> CmdCancel

Cmds == {"push", "wait", "relP", "pull", "relC", "cancel"}

-----------------------------------------------------------------------------
(* internal steps: a goroutine leaves its select *)

PWakeable == P.pc = "sel" /\ (P.ch \in closed \/ cancelled)
CWakeable == C.pc = "sel" /\ (C.ch \in closed \/ cancelled)

\* the select may pick either ready case
PWake ==
  /\ PWakeable
  /\ \/ /\ P.ch \in closed /\ WaitEval
     \/ /\ cancelled /\ P' = Idle /\ pret' = "false"
        /\ UNCHANGED <<q, pushed, pulled, didPush, didPull, closed, nextCh>>
  /\ UNCHANGED <<C, cancelled, cret, needWait, hist>>

CWake ==
  /\ CWakeable
  /\ \/ /\ C.ch \in closed /\ PullEval
     \/ /\ cancelled /\ C' = Idle /\ cret' = -2
        /\ UNCHANGED <<q, pushed, pulled, didPush, didPull, closed, nextCh>>
  /\ UNCHANGED <<P, cancelled, pret, needWait, hist>>

Internal == PWake \/ CWake
Quiescent == ~PWakeable /\ ~CWakeable

Next ==
  \/ /\ Quiescent /\ (Record => Len(hist) < MaxCmds)
     /\ \E c \in Cmds : Cmd(c) /\ hist' = IF Record THEN Append(hist, c) ELSE hist
  \/ Internal

Spec == Init /\ [][Next]_vars /\ WF_vars(PWake) /\ WF_vars(CWake)

-----------------------------------------------------------------------------
(* C20 clauses on the model *)

RECURSIVE Iota(_, _)
Iota(a, b) == IF a > b THEN <<>> ELSE <<a>> \o Iota(a + 1, b)

\* FIFO, exactly once: what was pulled followed by what is queued is what was pushed, in order
FIFO == pulled \o q = Iota(1, pushed)

\* no lost wake-up: a goroutine that stays in its select has a reason to
NoLostWakeC == (C.pc = "sel" /\ ~CWakeable) => q = <<>>
NoLostWakeP == (P.pc = "sel" /\ ~PWakeable) => Len(q) > N

\* bounded look-ahead when the producer alternates push / wait(N)
LookAhead == Alternate => Len(q) <= N + 1

\* cancellation: nobody can stay blocked (every select is wakeable once cancelled)
CancelWakes == cancelled => (P.pc = "sel" => PWakeable) /\ (C.pc = "sel" => CWakeable)

\* liveness (Spec with weak fairness of the wake steps): a wakeable goroutine leaves its select
PLeaves == (P.pc = "sel" /\ PWakeable) ~> (P.pc # "sel" \/ ~PWakeable)
CLeaves == (C.pc = "sel" /\ CWakeable) ~> (C.pc # "sel" \/ ~CWakeable)

Leaf == (Emit /\ Quiescent /\ Len(hist) = MaxCmds) => PrintT(<<"HIST", ToJson(hist)>>)
FIFOOrPrint == FIFO
NoLostOrPrint == (NoLostWakeC /\ NoLostWakeP) \/ (PrintT(<<"ATTACK", ToJson(hist)>>) /\ FALSE)

View == <<q, pushed, pulled, didPush, didPull, closed, P, C, cancelled, pret, cret, needWait, Len(hist)>>
=============================================================================
