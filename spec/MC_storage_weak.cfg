\* exhaustive design check: disk shape refines the abstract file (weakened variant: Finalize does not extend the file (attack-schedule generator))
CONSTANTS
  MaxParts = 2
  MaxLen = 4
  MaxOps = 7
  MaxReaders = 1
  TruncateAtFinalize = FALSE
  Emit = FALSE
  WriteSet <- MCWriteSet
  SeekSet <- MCSeekSet
  ReadSizes <- MCReadSizes
INIT Init
NEXT Next
VIEW View
INVARIANTS DiskRefinesOrPrint
CHECK_DEADLOCK FALSE
