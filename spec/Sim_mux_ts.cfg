CONSTANTS
  Variant = "mpegts"
  TrackKinds <- TK_VA
  SegCount = 3
  SegMin = 60
  PartMin = 1
  MaxSize = 1000
  Deltas <- D2040
  VKinds <- VK3
  AudioDur = 32
  Sizes <- S1
  MaxWrites = 60
  MaxAU = 1
  StartDts = 0
  MinAUc = 100
  Emit = TRUE
  ConstSd = 0
  NGaps = 2
  WeakVariant = ""
INIT Init
NEXT Next
CONSTRAINT Leaf
CHECK_DEADLOCK FALSE
