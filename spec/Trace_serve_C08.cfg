CONSTANTS
  SegCount = 7
  NumGaps = 7
  MaxSegs = 1000000
  MaxPartsPerSeg = 1000000
  Handlers <- H3
  Reqs <- REmpty
  StreamClosedUnderLock = TRUE
  HintUnlocksOnClosed = TRUE
  RolloverChecksOpen = TRUE
  GapIsContent = TRUE
  MaxCmds = 0
  Record = FALSE
  CloseAfter = 0
  Emit = FALSE
INIT TraceInit
NEXT TraceNext
CONSTRAINT HighWater
POSTCONDITION Post
CHECK_DEADLOCK FALSE
INVARIANTS C08_Snapshot C08_NoPanic C08_ViewsConsistent
