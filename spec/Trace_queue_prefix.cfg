CONSTANTS
  MaxPush = 1000000
  N = 1
  WaitCaptures = FALSE
  PullCaptures = TRUE
  Alternate = FALSE
  MaxCmds = 0
  Emit = FALSE
  Record = FALSE
INIT TraceInit
NEXT TraceNext
CONSTRAINT HighWater
POSTCONDITION Post
INVARIANTS C20_FIFO C20_NoLostWakeC C20_NoLostWakeP C20_CancelPrompt C20_LookAhead C20_NotStuck
CHECK_DEADLOCK FALSE
