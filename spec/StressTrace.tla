----------------------------- MODULE StressTrace -----------------------------
(***************************************************************************)
(* C08, free-running part: one writer (parameter changes, tiny segments,   *)
(* finally Close) and many readers of every URL kind on the REAL muxer,    *)
(* built with the race detector.  Every media playlist a reader received   *)
(* is one "resp" line (projected by the independent reader).  Each         *)
(* response must be a consistent view (single-playlist clauses of          *)
(* C03/C04) and the responses of one reader must evolve as C04 allows.     *)
(***************************************************************************)
EXTENDS MuxMonitor, Json

Trace == ndJsonDeserialize("trace.ndjson")

VARIABLES l, cfg, last     \* last[<<reader, stream>>] = previous full playlist seen by that reader

tvars == <<l, cfg, last>>

NoPL == [ok |-> 0]

TraceInit == l = 1 /\ cfg = [variant |-> "none"] /\ last = <<>>

TraceReset ==
  /\ l <= Len(Trace) /\ Trace[l].ev = "reset"
  /\ cfg' = Trace[l]
  /\ last' = [r \in 1..Trace[l].readers |-> [s \in 1..3 |-> NoPL]]
  /\ l' = l + 1

TraceResp ==
  /\ l <= Len(Trace) /\ Trace[l].ev = "resp"
  /\ last' = IF Trace[l].delta = 0 /\ Trace[l].pl.ok = 1 /\ Trace[l].s >= 1
             THEN [last EXCEPT ![Trace[l].r][Trace[l].s] = Trace[l].pl] ELSE last
  /\ cfg' = cfg
  /\ l' = l + 1

TraceOther ==
  /\ l <= Len(Trace) /\ Trace[l].ev \in {"end", "stressend", "panic"}
  /\ UNCHANGED <<cfg, last>>
  /\ l' = l + 1

TraceNext == TraceReset \/ TraceResp \/ TraceOther

O == Trace[l - 1]
IsResp == l > 1 /\ l - 1 <= Len(Trace) /\ O.ev = "resp"

\* the state BEFORE this response was folded in is needed for the pairwise clause: keep it simple and compare
\* with the stored previous one inside the step (action property)
ViewOK(pl) ==
  /\ pl.ok = 1
  /\ \A i \in 1..Len(pl.ent) : pl.td >= RoundSec(cfg, pl.ent[i].dur)                 \* C03 TargetGE
  /\ \A i \in 1..Len(pl.ent) : \A j \in 1..Len(pl.ent[i].parts) : pl.pt >= CeilMs(cfg, pl.ent[i].parts[j].dur)
  /\ \A j \in 1..Len(pl.open) : pl.pt >= CeilMs(cfg, pl.open[j].dur)
  /\ pl.qok = 1

C08_ConsistentView ==
  IsResp =>
    /\ ViewOK(O.pl)
    /\ (O.delta = 0) => C04Single(cfg, O.pl)

\* a reader samples the stream's playlist history: between two samples any number of rotations may have
\* happened, so only the clauses that survive sub-sampling apply (MSN monotone, same MSN = same entry, target monotone)
PairSampled(p, q) ==
  /\ q.msn >= p.msn
  /\ \A i \in 1..Len(p.ent) :
        LET j == p.msn + i - q.msn IN
        (j >= 1 /\ j <= Len(q.ent)) => EntKey(q.ent[j]) = EntKey(p.ent[i])
  /\ (q.msn + Len(q.ent)) >= (p.msn + Len(p.ent))
  /\ q.td >= p.td

\* successive full playlists of one reader and stream
C08_PerReaderMonotone ==
  [][ (l <= Len(Trace) /\ Trace[l].ev = "resp" /\ Trace[l].delta = 0 /\ Trace[l].pl.ok = 1 /\ Trace[l].s >= 1
        /\ last[Trace[l].r][Trace[l].s].ok = 1)
      => PairSampled(last[Trace[l].r][Trace[l].s], Trace[l].pl) ]_tvars

C08_NoPanicNoHang ==
  (l > 1 /\ l - 1 <= Len(Trace)) =>
     /\ O.ev # "panic"
     /\ (O.ev = "stressend" => (O.panics = 0 /\ O.hung = 0))
=============================================================================
