CONSTANTS
  StartWritten = TRUE
  DiscSeqOwnValue = TRUE
  TolerateUnquotedByteRange = TRUE
  ServerControlJoin = TRUE
  Emit = TRUE
INIT Init
NEXT Next
INVARIANTS EmitValue
CHECK_DEADLOCK FALSE
