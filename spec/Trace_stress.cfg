INIT TraceInit
NEXT TraceNext
INVARIANTS C08_ConsistentView C08_NoPanicNoHang
PROPERTIES C08_PerReaderMonotone
CHECK_DEADLOCK FALSE
