CONSTANT Want = {}
CONSTANT Conform = TRUE
INIT TraceInit
NEXT TraceNext
POSTCONDITION Post
CHECK_DEADLOCK FALSE
