CONSTANTS
  SegCount = 3
  NumGaps = 2
  MaxSegs = 3
  MaxPartsPerSeg = 3
  Handlers <- H2
  Reqs <- RSmall
  StreamClosedUnderLock = TRUE
  HintUnlocksOnClosed = TRUE
  RolloverChecksOpen = TRUE
  GapIsContent = TRUE
  MaxCmds = 12
  Record = FALSE
  CloseAfter = 0
  Emit = FALSE
SPECIFICATION Spec
INVARIANTS AnsweredWhenAvailable HintAnswered NeverEarly Immediate400 AfterCloseAllDone
PROPERTIES CloseUnblocks
CHECK_DEADLOCK FALSE
