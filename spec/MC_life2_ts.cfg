SPECIFICATION Spec
CONSTANTS
  NStreams = 2
  NSeg = 1
  Fmp4 = FALSE
  Variant = "ok"
  MaxReq = 5
  ClosePoints <- CP_small
  Faults <- F_small
INVARIANTS AtMostOneValue NoGoroutineLeft NoCallbackAfterwards NeverNil ErrorSurfaced RenditionAfterLeading
PROPERTIES Terminates
CHECK_DEADLOCK FALSE
