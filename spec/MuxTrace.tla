------------------------------- MODULE MuxTrace -------------------------------
(***************************************************************************)
(* Trace validation for the muxer family: each "write" line of             *)
(* trace.ndjson is one Write call on the REAL Muxer plus everything an     *)
(* HTTP client could observe afterwards.  The monitor of MuxMonitor.tla is *)
(* stepped with those observations; one invariant per property.            *)
(***************************************************************************)
EXTENDS MuxMonitor, Json

Trace == ndJsonDeserialize("trace.ndjson")

CONSTANT Want      \* which clause families are evaluated (the others are not computed)

VARIABLES l, cfg, mon

tvars == <<l, cfg, mon>>

NoCfg == [variant |-> "none"]
AllTrue == [c01 |-> TRUE, c02 |-> TRUE, c03 |-> TRUE, c04 |-> TRUE, c05 |-> TRUE, c18 |-> TRUE, c19 |-> TRUE, c16 |-> TRUE]

TraceInit == l = 1 /\ cfg = NoCfg /\ mon = [f |-> AllTrue]

TraceReset ==
  /\ l <= Len(Trace) /\ Trace[l].ev = "reset"
  /\ cfg' = Trace[l]
  /\ mon' = MonInit(Trace[l])
  /\ l' = l + 1

TraceWrite ==
  /\ l <= Len(Trace) /\ Trace[l].ev = "write"
  /\ mon' = MonStep(cfg, mon, Trace[l], Want)
  /\ cfg' = cfg
  /\ l' = l + 1

TraceEnd ==
  /\ l <= Len(Trace) /\ Trace[l].ev = "end"
  /\ UNCHANGED <<cfg, mon>>
  /\ l' = l + 1

TraceNext == TraceReset \/ TraceWrite \/ TraceEnd
TraceSpec == TraceInit /\ [][TraceNext]_tvars

C01_UnitsPreserved   == mon.f.c01
C02_Boundaries       == mon.f.c02
C03_Durations        == mon.f.c03
C04_Evolution        == mon.f.c04
C05_URIs             == mon.f.c05
C18_Retention        == mon.f.c18
C19_RegularParts     == mon.f.c19
C16_Multivariant     == mon.f.c16
=============================================================================
