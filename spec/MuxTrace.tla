------------------------------- MODULE MuxTrace -------------------------------
(***************************************************************************)
(* Trace validation for the muxer family: each "write" line of             *)
(* trace.ndjson is one Write call on the REAL Muxer plus everything an     *)
(* HTTP client could observe afterwards.  The monitor of MuxMonitor.tla is *)
(* stepped with those observations; one invariant per property.            *)
(***************************************************************************)
EXTENDS HlsMuxer, Json

Trace == ndJsonDeserialize("trace.ndjson")

CONSTANTS Want,     \* which clause families are evaluated (the others are not computed)
          Conform   \* TRUE: also step the implementation-shaped model and compare (conformance)

VARIABLES l, cfg, mon,
          mm, mode      \* implementation-shaped model stepped next to the real muxer; "ok" | "drift"

tvars == <<l, cfg, mon, mm, mode>>

Max2(a, b) == IF a > b THEN a ELSE b

\* projections compared for conformance
PLView(pl) ==
  IF pl.ok # 1 THEN [ok |-> pl.ok]
  ELSE [ok |-> 1, td |-> pl.td, msn |-> pl.msn, pt |-> pl.pt, hb |-> pl.hb, su |-> pl.su, map |-> pl.map, hint |-> pl.hint,
        ent |-> [i \in 1..Len(pl.ent) |-> [id |-> pl.ent[i].id, gap |-> pl.ent[i].gap, dur |-> pl.ent[i].dur,
                                            ntp |-> pl.ent[i].ntp,
                                            parts |-> [j \in 1..Len(pl.ent[i].parts) |-> [id |-> pl.ent[i].parts[j].id, dur |-> pl.ent[i].parts[j].dur, ind |-> pl.ent[i].parts[j].ind]]]],
        open |-> [j \in 1..Len(pl.open) |-> [id |-> pl.open[j].id, dur |-> pl.open[j].dur, ind |-> pl.open[j].ind]]]

InitView(is) == [s \in 1..Len(is) |-> IF is[s].ok # 1 THEN [ok |-> is[s].ok]
                    ELSE [ok |-> 1, tracks |-> [i \in 1..Len(is[s].tracks) |-> [t |-> is[s].tracks[i].t, scale |-> is[s].tracks[i].scale, gen |-> is[s].tracks[i].gen]]]]
UnitView(u) == [id |-> u.id, dts |-> u.dts, dur |-> u.dur, sync |-> u.sync]
EmitsView(es) ==
  [i \in 1..Len(es) |-> [s |-> es[i].s, kind |-> es[i].kind, id |-> es[i].id,
     frags |-> [j \in 1..Len(es[i].frags) |-> [seq |-> es[i].frags[j].seq,
        tr |-> [k \in 1..Len(es[i].frags[j].tr) |-> [t |-> es[i].frags[j].tr[k].t,
           u |-> [n \in 1..Len(es[i].frags[j].tr[k].u) |-> UnitView(es[i].frags[j].tr[k].u[n])]]]]]]]

NoCfg == [variant |-> "none"]
AllTrue == [c01 |-> TRUE, c02 |-> TRUE, c03 |-> TRUE, c04 |-> TRUE, c05 |-> TRUE, c18 |-> TRUE, c19 |-> TRUE, c16 |-> TRUE]

TraceInit == l = 1 /\ cfg = NoCfg /\ mon = [f |-> AllTrue] /\ mm = <<>> /\ mode = "ok" /\ TLCSet(2, 0) /\ TLCSet(3, 0)

TraceReset ==
  /\ l <= Len(Trace) /\ Trace[l].ev = "reset"
  /\ cfg' = Trace[l]
  /\ mon' = MonInit(Trace[l])
  /\ mm' = IF Trace[l].startErr = 0 THEN MInit(Trace[l]) ELSE <<>>
  /\ mode' = "ok"
  /\ l' = l + 1

TraceWrite ==
  /\ l <= Len(Trace) /\ Trace[l].ev = "write"
  /\ mon' = MonStep(cfg, mon, Trace[l], Want)
  /\ cfg' = cfg
  \* conformance (never a verdict, DESIGN 3): the model takes the same Write; what it would serve must be what
  \* the real muxer served
  /\ IF mode = "ok" /\ Conform
     THEN LET m1 == MWrite(cfg, mm, Trace[l])
              ob == MRender(cfg, m1)
              w  == Trace[l]
              same == /\ (m1.err <=> w.ok = 0)
                      /\ (w.ok = 1 =>
                            /\ [s \in 1..NS(cfg) |-> PLView(ob.pl[s])] = [s \in 1..NS(cfg) |-> PLView(w.pl[s])]
                            /\ (NoEmit(cfg) \/ EmitsView(ob.emit) = EmitsView(w.emit))
                            /\ (cfg.variant = "mpegts" \/ InitView(ob.init) = InitView(w.init)))
          IN IF same THEN mm' = MarkSeen(cfg, m1) /\ mode' = "ok"
             ELSE mm' = mm /\ mode' = "drift" /\ PrintT(<<"DRIFT", l>>)
     ELSE mm' = mm /\ mode' = mode
  /\ l' = l + 1

TraceEnd ==
  /\ l <= Len(Trace) /\ Trace[l].ev = "end"
  /\ UNCHANGED <<cfg, mon, mm>>
  /\ mode' = mode
  /\ TLCSet(2, TLCGet(2) + 1)
  /\ (mode = "ok" => TLCSet(3, TLCGet(3) + 1))
  /\ l' = l + 1

\* Close after the last Write (C07): the directory is empty, a later request returns with a non-200 status
TraceClosed ==
  /\ l <= Len(Trace) /\ Trace[l].ev \in {"closed", "tok"}
  /\ UNCHANGED <<cfg, mon, mm, mode>>
  /\ l' = l + 1

TraceNext == TraceReset \/ TraceWrite \/ TraceEnd \/ TraceClosed
TraceSpec == TraceInit /\ [][TraceNext]_tvars

Post == PrintT(<<"TRACES", TLCGet(2)>>) /\ PrintT(<<"CONFORMING", TLCGet(3)>>)

C01_UnitsPreserved   == mon.f.c01
C02_Boundaries       == mon.f.c02
C03_Durations        == mon.f.c03
C04_Evolution        == mon.f.c04
C05_URIs             == mon.f.c05
C18_Retention        == mon.f.c18
C19_RegularParts     == mon.f.c19
C16_Multivariant     == mon.f.c16
\* C06, delta updates: the response to _HLS_skip=YES / v2 is the full playlist of the same instant minus its first N segments
C06_DeltaIsSuffix    == (l > 1 /\ l - 1 <= Len(Trace) /\ Trace[l - 1].ev = "write" /\ "delta" \in DOMAIN Trace[l - 1]) => Trace[l - 1].delta = 1
C07_AfterClose       == (l > 1 /\ l - 1 <= Len(Trace) /\ Trace[l - 1].ev = "closed") =>
                           (Trace[l - 1].files \in {-1, 0} /\ Trace[l - 1].plst # 200)
=============================================================================
