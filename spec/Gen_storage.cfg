\* generation run: every maximal operation history of the model is printed as a script
CONSTANTS
  MaxParts = 2
  MaxLen = 4
  MaxOps = 5
  MaxReaders = 1
  TruncateAtFinalize = TRUE
  Emit = TRUE
  WriteSet <- MCWriteSet
  SeekSet <- MCSeekSet
  ReadSizes <- MCReadSizes
INIT Init
NEXT Next
CONSTRAINT Leaf
CHECK_DEADLOCK FALSE
