SPECIFICATION FSpec
CONSTANTS
  InitialDistance = 3
  Variant = "ok"
  MaxDistance = 5
  MaxMS = 9
  MaxN = 8
  MaxAdvance = 4
  MaxPolls = 4
  Vod = TRUE
  Fmp4 = TRUE
  LL = FALSE
  CanSkip = FALSE
INVARIANTS Consecutive StartsRight OnlyListed NotTooLate EOSAfterLast ErrorsJustified ReloadBetween
CHECK_DEADLOCK FALSE
