CONSTANTS
  StartWritten = TRUE
  DiscSeqOwnValue = TRUE
  TolerateUnquotedByteRange = FALSE
  ServerControlJoin = TRUE
INIT TraceInit
NEXT TraceNext
POSTCONDITION Post
CHECK_DEADLOCK FALSE
INVARIANTS C15_MarshalGrammatical
